// ===================================================================================================
// skip(max): contract template.  Handler bodies are extracted from /repo/src/skip.rs.
// ===================================================================================================
//@op skip
//@properties C01 C02 C03 C04 C05 C06 C07 C13 C14 C17 C20
//@ignore ctor = Tok_apply {}
//@ignore apply = let source = source.into(); Tok_skip {}
//@heap Heap
//@tp T
//@celltp

pub struct G<T> { pub dn: DnLink<T>, pub up: UpLink<T> }
pub struct Cap { pub max: usize, pub pullable: bool }
pub struct Heap { pub skipped: usize, pub talkback: Option<UpTb>, pub alloc_skipped: bool, pub alloc_talkback: bool }
#[derive(Clone, Copy)] pub struct Tok_sink_talkback {}
#[derive(Clone, Copy)] pub struct Tok_source_talkback {}
//@cell skipped: usize = atomic
//@cell talkback: Option<UpTb> = swap_option

pub open spec fn cap_ok(c: Cap) -> bool { true }
pub open spec fn g_init<T>() -> G<T> { G { dn: dn_init(), up: up_init() } }
#[verifier::external_body] pub fn fresh_heap() -> (h: Heap) ensures !h.alloc_talkback && !h.alloc_skipped { unimplemented!() }

//@include passthrough_common.rs TP=T G=G<T> HEAP=Heap
//@invpart safe @C17,C04 the upstream talkback is stored before it is used
//@invpart data @C07,C06 skip: output is the input without its first n items
//@invpart pull @C14,C06 demand conservation: skipped items are re-requested, outstanding demand is carried upstream
pub open spec fn inv_safe<T>(h: Heap, g: G<T>, c: Cap) -> bool {
    up_greeted(g.up.phase) ==> h.talkback is Some
}
pub open spec fn inv_data<T>(h: Heap, g: G<T>, c: Cap) -> bool {
    &&& h.skipped <= c.max
    &&& h.skipped <= g.up.data.len()
    &&& (h.skipped < c.max ==> h.skipped == g.up.data.len())
    &&& (up_greeted(g.up.phase) || g.up.phase == Up::Subscribing ==> g.dn.data =~= g.up.data.skip(h.skipped as int))
    &&& (g.up.phase == Up::Idle ==> g.dn.data.len() == 0 && g.up.data.len() == 0)
}
pub open spec fn inv_pull<T>(h: Heap, g: G<T>, c: Cap) -> bool {
    c.pullable ==> {
        &&& g.up.data.len() <= g.up.pulls
        &&& g.up.pulls - g.up.data.len() == g.dn.pulls - g.dn.data.len()
    }
}
pub open spec fn mono<T>(a: Heap, ga: G<T>, b: Heap, gb: G<T>) -> bool {
    &&& dnl_mono(ga.dn, gb.dn)
    &&& upl_mono(ga.up, gb.up)
    &&& (a.alloc_talkback ==> b.alloc_talkback) && (a.alloc_skipped ==> b.alloc_skipped)
}

//@include env_unary.rs OP=skip TP=T G=G<T> GNAME=G HEAP=Heap I=T O=T

#[verifier::exec_allows_no_decreases_clause]
pub fn skip__subscribe<T>(h: &mut Heap, g: &mut Ghost<G<T>>, c: &Cap, message: Message<Never, SinkH>)
    requires
        message is Handshake, old(g)@ == g_init::<T>(),
        !old(h).alloc_talkback && !old(h).alloc_skipped,
    ensures
        INV!(*final(h), final(g)@, *c),
        final(h).alloc_talkback && final(h).alloc_skipped, /* @C13 every cell is allocated per subscription */
{
    let source = UpSrc {}; let max = c.max;
    BODY!("skip");
}

#[verifier::exec_allows_no_decreases_clause]
pub fn skip__source_talkback<T>(h: &mut Heap, g: &mut Ghost<G<T>>, c: &Cap, message: Message<T, UpTb>)
    requires
        INV!(*old(h), old(g)@, *c),
        !(message is Pull),
        message is Handshake ==> old(g)@.up.phase == Up::Subscribing,
        !(message is Handshake) ==> old(g)@.up.phase == Up::Live,
        message is Data && c.pullable ==> old(g)@.up.data.len() < old(g)@.up.pulls, // profile P: a pullable upstream answers an outstanding Pull only
    ensures
        INV!(*final(h), final(g)@, *c),
        mono(*old(h), old(g)@, *final(h), final(g)@), /* @C02 phases only move forward */
        message is Data && old(h).skipped >= c.max ==> final(g)@.dn.data.len() > old(g)@.dn.data.len(), /* @C07 the output is delivered during the delivery of the input */
        message is Data && old(h).skipped < c.max ==> final(g)@.up.pulls > old(g)@.up.pulls, /* @C14 a skipped item is re-requested by the operator itself */
        message is Error ==> final(g)@.dn.phase == Dn::EndedByUs && final(g)@.dn.err == Some(message->Error_0), /* @C05 error forwarded once, unchanged */
        message is Terminate ==> final(g)@.dn.phase == Dn::EndedByUs && final(g)@.dn.err is None, /* @C07 completes exactly when upstream does */
{
    let sink = SinkH {}; let max = c.max; let skipped = Cell_skipped {}; let talkback = Cell_talkback {};
    proof {
        g@ = G { up: up_recv(g@.up, message), ..g@ };
    }
    BODY!("source_talkback");
}

#[verifier::exec_allows_no_decreases_clause]
pub fn skip__sink_talkback<T>(h: &mut Heap, g: &mut Ghost<G<T>>, c: &Cap, message: Message<Never, Never>)
    requires
        INV!(*old(h), old(g)@, *c),
        old(g)@.dn.phase == Dn::Live,
        message is Pull || message is Terminate || message is Error,
    ensures
        INV!(*final(h), final(g)@, *c),
        mono(*old(h), old(g)@, *final(h), final(g)@), /* @C02 phases only move forward */
        sink_rel(*old(h), old(g)@, *final(h), final(g)@, *c),
        (message is Terminate || message is Error) ==> final(g)@.up.phase != Up::Live, /* @C04 disposal reaches the upstream */
        (message is Terminate || message is Error) ==> final(g)@.dn.phase == Dn::EndedBySink, /* @C03 no termination back to a sink that disposed */
        message is Error ==> final(g)@.up.term_err == Some(message->Error_0), /* @C04 a sink Error goes upstream as that Error */
{
    let talkback = Cell_talkback {};
    proof { g@ = G { dn: dn_recv(g@.dn, message), ..g@ }; }
    BODY!("sink_talkback");
}
