// Most general conformant sink of an operator output (DESIGN 2.2-2.4).  Text parameters: $OP, $TP, $G, $GNAME, $HEAP, $O.
#[derive(Clone, Copy)] pub struct SinkH {}
impl<$TP> Handle<$G, Message<$O, Tok_sink_talkback>> for SinkH {
    type HH = $HEAP;
    type CC = Cap;
    open spec fn gate(&self, k: int, h: $HEAP, g: $G, c: Cap, m: Message<$O, Tok_sink_talkback>) -> bool {
        if k == $GATE_NO_PULL_DOWN { !(m is Pull) }
        else if k == $GATE_GREET_ONCE { m is Handshake ==> g.dn.phase == Dn::NotGreeted }
        else if k == $GATE_GREET_FIRST { !(m is Handshake) ==> g.dn.phase != Dn::NotGreeted }
        else if k == $GATE_AFTER_TERM { $LITE || (!(m is Handshake) ==> g.dn.phase != Dn::EndedByUs) }
        else if k == $GATE_AFTER_DISPOSAL { $LITE || (!(m is Handshake) ==> g.dn.phase != Dn::EndedBySink) }
        else if k == $GATE_NO_ORPHAN { m is Terminate || m is Error ==> $ORPHAN }
        else if k == $GATE_QUIET { $QUIET }
        else if k == $GATE_UNREQUESTED { m is Data && c.pullable ==> g.dn.data.len() < g.dn.pulls }
        else { $SINKGATE }
    }
    /// (LITE units switch the after-termination clauses off; there a sink that is already over ignores what it is sent)
    open spec fn post(&self, g: $G, m: Message<$O, Tok_sink_talkback>) -> $G { if $LITE && dn_over(g.dn.phase) { g } else { $GNAME { dn: dn_send(g.dn, m), ..g } } }
    open spec fn needs_inv(&self, g: $G, m: Message<$O, Tok_sink_talkback>, p: int) -> bool { !(m is Terminate || m is Error) && !($LITE && dn_over(g.dn.phase)) }
    open spec fn extra(&self, h: Self::HH, g: $G, c: Self::CC, m: Message<$O, Tok_sink_talkback>) -> bool { true }
}
impl SinkH {
    /// the operator delivers `m` to its sink
    #[verifier::exec_allows_no_decreases_clause]
    pub fn call<$TP>(&self, h: &mut $HEAP, g: &mut Ghost<$G>, c: &Cap, m: Message<$O, Tok_sink_talkback>)
        requires
            GATES!(self, *old(h), old(g)@, *c, m),
            self.extra(*old(h), old(g)@, *c, m),
            self.needs_inv(old(g)@, m, $P) ==> INV!(*old(h), self.post(old(g)@, m), *c),
        ensures
            self.needs_inv(old(g)@, m, $P) ==> INV!(*final(h), final(g)@, *c),
            mono(*old(h), self.post(old(g)@, m), *final(h), final(g)@),
            sink_rel(*old(h), self.post(old(g)@, m), *final(h), final(g)@, *c),
            !self.needs_inv(old(g)@, m, 0) ==> *final(h) == *old(h) && final(g)@ == self.post(old(g)@, m),
    {
        let ghost ignored = $LITE && dn_over(g@.dn.phase);
        proof { g@ = self.post(g@, m); }
        if matches!(m, Message::Terminate | Message::Error(_)) { return; }  // a terminated sink is silent
        if ghost_test(Ghost(ignored)) { return; }
        let ghost h0 = *h; let ghost g0 = g@;
        loop
            invariant
                INV!(*h, g@, *c),
                mono(h0, g0, *h, g@), sink_rel(h0, g0, *h, g@, *c),
        {
            if nondet_bool() { break; }
            if ghost_test(Ghost(g@.dn.phase == Dn::Live)) {
                if nondet_bool() {
                    if !c.pullable || ghost_test(Ghost(g@.dn.pulls <= g@.dn.data.len())) {
                        $OP__sink_talkback(h, g, c, Message::Pull);
                    }
                }
                else if nondet_bool() { $OP__sink_talkback(h, g, c, Message::Terminate); }
                else { $OP__sink_talkback(h, g, c, Message::Error(nondet_u64())); }
            }
        }
    }
}
