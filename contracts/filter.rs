// ===================================================================================================
// filter(condition): contract template.  Handler bodies are extracted from /repo/src/filter.rs.
// ===================================================================================================
//@op filter
//@properties C01 C02 C03 C04 C05 C06 C07 C13 C14 C17 C20
//@ignore ctor = Tok_apply {}
//@ignore apply = let source = source.into(); Tok_filter {}
//@heap Heap
//@tp T
//@celltp

pub struct G<T> { pub dn: DnLink<T>, pub up: UpLink<T>, pub p_calls: nat }
pub struct Cap { pub pullable: bool }
pub struct Heap { pub talkback: Option<UpTb>, pub alloc_talkback: bool }
#[derive(Clone, Copy)] pub struct Tok_sink_talkback {}
#[derive(Clone, Copy)] pub struct Tok_source_talkback {}
//@cell talkback: Option<UpTb> = swap_option

pub uninterp spec fn user_p<T>(x: T) -> bool;
/// the user's predicate: a deterministic function of its argument that does not touch the operator
#[derive(Clone, Copy)] pub struct UserP {}
impl UserP {
    #[verifier::external_body]
    pub fn call<T>(&self, h: &mut Heap, g: &mut Ghost<G<T>>, c: &Cap, x: &T) -> (r: bool)
        ensures r == user_p::<T>(*x), *final(h) == *old(h), final(g)@ == (G { p_calls: old(g)@.p_calls + 1, ..old(g)@ }),
    { unimplemented!() }
}
pub open spec fn keep<T>(s: Seq<T>) -> Seq<T> { s.filter(|x: T| user_p::<T>(x)) }
pub proof fn lemma_keep_push<T>(s: Seq<T>, x: T)
    ensures keep(s.push(x)) =~= (if user_p::<T>(x) { keep(s).push(x) } else { keep(s) }),
{
    reveal(Seq::filter);
    assert(s.push(x).drop_last() =~= s);
}

pub open spec fn cap_ok(c: Cap) -> bool { true }
pub open spec fn g_init<T>() -> G<T> { G { dn: dn_init(), up: up_init(), p_calls: 0 } }
#[verifier::external_body] pub fn fresh_heap() -> (h: Heap) ensures !h.alloc_talkback { unimplemented!() }

//@include passthrough_common.rs TP=T G=G<T> HEAP=Heap
//@invpart safe @C17,C04 the upstream talkback is stored before it is used
//@invpart data @C07,C06 filter: output is the sub-list of the input satisfying the predicate, predicate applied once per item
//@invpart pull @C14,C06 demand conservation: rejected items are re-requested, outstanding demand is carried upstream
pub open spec fn inv_safe<T>(h: Heap, g: G<T>, c: Cap) -> bool {
    up_greeted(g.up.phase) ==> h.talkback is Some
}
pub open spec fn inv_data<T>(h: Heap, g: G<T>, c: Cap) -> bool {
    &&& g.dn.data =~= keep(g.up.data)
    &&& g.p_calls == g.up.data.len()
}
pub open spec fn inv_pull<T>(h: Heap, g: G<T>, c: Cap) -> bool {
    c.pullable ==> {
        &&& g.up.data.len() <= g.up.pulls
        &&& g.up.pulls - g.up.data.len() == g.dn.pulls - g.dn.data.len()
    }
}
pub open spec fn mono<T>(a: Heap, ga: G<T>, b: Heap, gb: G<T>) -> bool {
    &&& dnl_mono(ga.dn, gb.dn)
    &&& upl_mono(ga.up, gb.up)
    &&& (a.alloc_talkback ==> b.alloc_talkback)
}

//@include env_unary.rs OP=filter TP=T G=G<T> GNAME=G HEAP=Heap I=T O=T

#[verifier::exec_allows_no_decreases_clause]
pub fn filter__subscribe<T>(h: &mut Heap, g: &mut Ghost<G<T>>, c: &Cap, message: Message<Never, SinkH>)
    requires
        message is Handshake, old(g)@ == g_init::<T>(),
        !old(h).alloc_talkback,
    ensures
        INV!(*final(h), final(g)@, *c),
        final(h).alloc_talkback, /* @C13 every cell is allocated per subscription */
{
    let source = UpSrc {}; let condition = UserP {};
    BODY!("filter");
}

#[verifier::exec_allows_no_decreases_clause]
pub fn filter__source_talkback<T>(h: &mut Heap, g: &mut Ghost<G<T>>, c: &Cap, message: Message<T, UpTb>)
    requires
        INV!(*old(h), old(g)@, *c),
        !(message is Pull),
        message is Handshake ==> old(g)@.up.phase == Up::Subscribing,
        !(message is Handshake) ==> old(g)@.up.phase == Up::Live,
        message is Data && c.pullable ==> old(g)@.up.data.len() < old(g)@.up.pulls, // profile P: a pullable upstream answers an outstanding Pull only
    ensures
        INV!(*final(h), final(g)@, *c),
        mono(*old(h), old(g)@, *final(h), final(g)@), /* @C02 phases only move forward */
        message is Data && user_p::<T>(message->Data_0) ==> final(g)@.dn.data.len() > old(g)@.dn.data.len(), /* @C07 the output is delivered during the delivery of the input */
        message is Data && !user_p::<T>(message->Data_0) ==> final(g)@.up.pulls > old(g)@.up.pulls, /* @C14 a rejected item is re-requested by the operator itself */
        message is Error ==> final(g)@.dn.phase == Dn::EndedByUs && final(g)@.dn.err == Some(message->Error_0), /* @C05 error forwarded once, unchanged */
        message is Terminate ==> final(g)@.dn.phase == Dn::EndedByUs && final(g)@.dn.err is None, /* @C07 completes exactly when upstream does */
{
    let sink = SinkH {}; let condition = UserP {}; let talkback = Cell_talkback {};
    proof {
        if message is Data { lemma_keep_push::<T>(g@.up.data, message->Data_0); }
        g@ = G { up: up_recv(g@.up, message), ..g@ };
    }
    BODY!("source_talkback");
}

#[verifier::exec_allows_no_decreases_clause]
pub fn filter__sink_talkback<T>(h: &mut Heap, g: &mut Ghost<G<T>>, c: &Cap, message: Message<Never, Never>)
    requires
        INV!(*old(h), old(g)@, *c),
        old(g)@.dn.phase == Dn::Live,
        message is Pull || message is Terminate || message is Error,
    ensures
        INV!(*final(h), final(g)@, *c),
        mono(*old(h), old(g)@, *final(h), final(g)@), /* @C02 phases only move forward */
        sink_rel(*old(h), old(g)@, *final(h), final(g)@, *c),
        (message is Terminate || message is Error) ==> final(g)@.up.phase != Up::Live, /* @C04 disposal reaches the upstream */
        (message is Terminate || message is Error) ==> final(g)@.dn.phase == Dn::EndedBySink, /* @C03 no termination back to a sink that disposed */
        message is Error ==> final(g)@.up.term_err == Some(message->Error_0), /* @C04 a sink Error goes upstream as that Error */
{
    let talkback = Cell_talkback {};
    proof { g@ = G { dn: dn_recv(g@.dn, message), ..g@ }; }
    BODY!("sink_talkback");
}
