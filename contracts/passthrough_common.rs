// ---- invariant parts shared by the pass-through unary operators (map, filter, scan, skip) ----
//@invpart proto @C01 greeting and phases of the two links agree
//@invpart term @C02 at most one termination per link
//@invpart fwd @C05 upstream end / error reaches the sink unchanged; a sink Error goes upstream as that Error
pub open spec fn inv_proto<$TP>(h: $HEAP, g: $G, c: Cap) -> bool {
    &&& (!up_greeted(g.up.phase) ==> g.dn.phase == Dn::NotGreeted)
    &&& (g.up.phase == Up::Live <==> g.dn.phase == Dn::Live)
    &&& (g.up.phase == Up::EndedByUs <==> g.dn.phase == Dn::EndedBySink)
    &&& ((g.up.phase == Up::EndedBySelf || g.up.phase == Up::ErroredBySelf) <==> g.dn.phase == Dn::EndedByUs)
}
pub open spec fn inv_term<$TP>(h: $HEAP, g: $G, c: Cap) -> bool {
    &&& g.dn.terms == (if g.dn.phase == Dn::EndedByUs { 1nat } else { 0nat })
    &&& g.up.terms == (if g.up.phase == Up::EndedByUs { 1nat } else { 0nat })
}
pub open spec fn inv_fwd<$TP>(h: $HEAP, g: $G, c: Cap) -> bool {
    &&& (g.up.phase == Up::ErroredBySelf ==> g.dn.err == g.up.err)
    &&& (g.up.phase == Up::EndedBySelf ==> g.dn.err is None)
    &&& (g.up.phase == Up::EndedByUs ==> g.up.term_err == g.dn.sink_err)
    &&& (g.dn.phase != Dn::EndedByUs ==> g.dn.err is None)
    &&& (g.dn.phase != Dn::EndedBySink ==> g.dn.sink_err is None)
    &&& (g.up.phase != Up::EndedByUs ==> g.up.term_err is None)
    &&& (g.up.phase != Up::ErroredBySelf ==> g.up.err is None)
}
pub open spec fn sink_rel<$TP>(a: $HEAP, ga: $G, b: $HEAP, gb: $G, c: Cap) -> bool { true }
pub open spec fn up_rel<$TP>(a: $HEAP, ga: $G, b: $HEAP, gb: $G, c: Cap) -> bool { true }
