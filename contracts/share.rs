// ===================================================================================================
// share(source): contract template, profile R as property C12 quantifies: sinks attach at top level, only
// the sink being delivered to acts during a delivery, and the source answers from inside one of share's
// own deliveries only when that delivery is the last of its fan-out (nested fan-out, cross-sink activity, a sink
// attaching inside a handler and a late upstream are outside this profile: bounded exploration on every run).
// Bodies extracted from /repo/src/share.rs: constructor, attach closure, sink talkback, upstream handler.
// ===================================================================================================
//@op share
//@properties C01 C02 C03 C04 C05 C12 C17 C20
//@token sink_talkback => Tb::Sink(sink)
//@token anon => Tok_anon { sink: sink }
//@heap Heap
//@tp T
//@celltp
//@extratag @C12 share-specific side condition of the call

/// `Arc<Source<T>>` handed out as a talkback: the upstream's, or the one share gives to an attached sink
#[derive(Clone, Copy)] pub enum Tb { Up, Sink(SinkH) }
#[derive(Clone, Copy)] pub struct UpSrc {}
impl UpSrc { pub fn into(self) -> (r: Self) ensures r == self { self } }
/// a sink attached to the shared source; `id` is its identity (`Arc::ptr_eq`), ids are handed out in attach order
#[derive(Clone, Copy)] pub struct SinkH { pub id: usize }
#[derive(Clone, Copy)] pub struct Tok_share {}
#[derive(Clone, Copy)] pub struct Tok_anon { pub sink: SinkH }

/// `Vec<Arc<Sink<T>>>` (R8): the operations share uses, verified over vstd's Vec
pub struct VecS { pub v: Vec<SinkH> }
impl VecS {
    pub fn new() -> (r: VecS) ensures r.v@.len() == 0 { VecS { v: Vec::new() } }
    pub fn push(&mut self, x: SinkH) ensures final(self).v@ == old(self).v@.push(x) { self.v.push(x); }
    pub fn len(&self) -> (r: usize) ensures r == self.v@.len() { self.v.len() }
    pub fn is_empty(&self) -> (r: bool) ensures r == (self.v@.len() == 0) { self.v.len() == 0 }
    pub fn at(&self, k: usize) -> (r: SinkH) requires k < self.v@.len() ensures r == self.v@[k as int] { self.v[k] }
    /// `iter().position(|s| Arc::ptr_eq(s, &sink))`
    pub fn position_ptr_eq(&self, x: &SinkH) -> (r: Option<usize>)
        ensures
            r is Some ==> r->Some_0 < self.v@.len() && self.v@[r->Some_0 as int].id == x.id,
            r is None ==> forall|j: int| 0 <= j < self.v@.len() ==> (#[trigger] self.v@[j]).id != x.id,
    {
        let mut k: usize = 0;
        while k < self.v.len()
            invariant k <= self.v@.len(), forall|j: int| 0 <= j < k ==> (#[trigger] self.v@[j]).id != x.id,
            decreases self.v@.len() - k,
        {
            if self.v[k].id == x.id { return Some(k); }
            k = k + 1;
        }
        None
    }
    /// `iter().any(|s| Arc::ptr_eq(s, x))`
    pub fn any_ptr_eq(&self, x: &SinkH) -> (r: bool)
        ensures r == (exists|j: int| 0 <= j < self.v@.len() && (#[trigger] self.v@[j]).id == x.id),
    {
        let p = self.position_ptr_eq(x);
        proof { if p is Some { assert(self.v@[p->Some_0 as int].id == x.id); } }
        p.is_some()
    }
    /// `splice(i..i + 1, iter::empty())`: remove the element at `a`
    pub fn splice_empty(&mut self, a: usize, b: usize)
        requires a < old(self).v@.len(), b == a + 1,
        ensures final(self).v@ == old(self).v@.remove(a as int),
    { self.v.remove(a); }
    /// `extend(other.iter().cloned())`
    pub fn extend_from(&mut self, o: &VecS)
        ensures final(self).v@ == old(self).v@ + o.v@,
    {
        let mut k: usize = 0;
        while k < o.v.len()
            invariant k <= o.v@.len(), self.v@ == old(self).v@ + o.v@.subrange(0, k as int),
            decreases o.v@.len() - k,
        {
            self.v.push(o.v[k]);
            proof { assert(o.v@.subrange(0, k as int).push(o.v@[k as int]) =~= o.v@.subrange(0, k as int + 1)); assert(self.v@ =~= old(self).v@ + o.v@.subrange(0, k as int + 1)); }
            k = k + 1;
        }
        proof { assert(o.v@.subrange(0, o.v@.len() as int) =~= o.v@); }
    }
    /// `Vec::remove(i)`: panics when out of bounds; the removed element is returned
    pub fn remove(&mut self, a: usize) -> (r: SinkH)
        requires a < old(self).v@.len(),
        ensures final(self).v@ == old(self).v@.remove(a as int), r == old(self).v@[a as int],
    { self.v.remove(a) }
}

pub struct G<T> {
    pub dns: Seq<DnLink<T>>,     // one link per sink that ever attached, by id
    pub att: Seq<bool>,          // the sink is attached (in the list)
    pub pos: Seq<int>,           // ... at this index of the list
    pub ups: Seq<UpLink<T>>,     // upstream subscriptions, one per generation; the current one is the last
    pub fan_on: bool,            // a fan-out loop is on the stack
    pub fan_snap: Seq<SinkH>,    // the snapshot it iterates over
    pub fan_k: int,              // deliveries of that fan-out begun so far
}
pub struct Cap { pub pullable: bool }
pub struct Heap { pub sinks: VecS, pub ending: VecS, pub source_talkback: Option<Tb>, pub alloc_sinks: bool, pub alloc_ending: bool, pub alloc_source_talkback: bool }
#[derive(Clone, Copy)] pub struct Cell_sinks {}
impl Cell_sinks {
    pub fn alloc(h: &mut Heap, v: VecS) -> (r: Cell_sinks) ensures *final(h) == (Heap { sinks: v, alloc_sinks: true, ..*old(h) }) { h.sinks = v; h.alloc_sinks = true; Cell_sinks {} }
    /// ArcSwap::load yields a snapshot of the current list
    pub fn load(&self, h: &Heap) -> (r: VecS) ensures r == h.sinks { clone_val(&h.sinks) }
    pub fn load_full(&self, h: &Heap) -> (r: VecS) ensures r == h.sinks { clone_val(&h.sinks) }
    pub fn store(&self, h: &mut Heap, v: VecS) ensures *final(h) == (Heap { sinks: v, ..*old(h) }) { h.sinks = v; }
    pub fn swap(&self, h: &mut Heap, v: VecS) -> (r: VecS) ensures r == old(h).sinks, *final(h) == (Heap { sinks: v, ..*old(h) }) { let r = clone_val(&h.sinks); h.sinks = v; r }
}
/// the sinks of a subscription that is over which have not been told its end yet
#[derive(Clone, Copy)] pub struct Cell_ending {}
impl Cell_ending {
    pub fn alloc(h: &mut Heap, v: VecS) -> (r: Cell_ending) ensures *final(h) == (Heap { ending: v, alloc_ending: true, ..*old(h) }) { h.ending = v; h.alloc_ending = true; Cell_ending {} }
    pub fn load(&self, h: &Heap) -> (r: VecS) ensures r == h.ending { clone_val(&h.ending) }
    pub fn load_full(&self, h: &Heap) -> (r: VecS) ensures r == h.ending { clone_val(&h.ending) }
    pub fn store(&self, h: &mut Heap, v: VecS) ensures *final(h) == (Heap { ending: v, ..*old(h) }) { h.ending = v; }
    pub fn swap(&self, h: &mut Heap, v: VecS) -> (r: VecS) ensures r == old(h).ending, *final(h) == (Heap { ending: v, ..*old(h) }) { let r = clone_val(&h.ending); h.ending = v; r }
}
#[derive(Clone, Copy)] pub struct Cell_source_talkback {}
impl Cell_source_talkback {
    pub fn alloc(h: &mut Heap, v: Option<Tb>) -> (r: Cell_source_talkback) ensures *final(h) == (Heap { source_talkback: v, alloc_source_talkback: true, ..*old(h) }) { h.source_talkback = v; h.alloc_source_talkback = true; Cell_source_talkback {} }
    pub fn load(&self, h: &Heap) -> (r: Option<Tb>) ensures r == h.source_talkback { h.source_talkback }
    pub fn load_full(&self, h: &Heap) -> (r: Option<Tb>) ensures r == h.source_talkback { h.source_talkback }
    pub fn swap(&self, h: &mut Heap, v: Option<Tb>) -> (r: Option<Tb>) ensures r == old(h).source_talkback, *final(h) == (Heap { source_talkback: v, ..*old(h) }) { let r = h.source_talkback; h.source_talkback = v; r }
    pub fn store(&self, h: &mut Heap, v: Option<Tb>) ensures *final(h) == (Heap { source_talkback: v, ..*old(h) }) { h.source_talkback = v; }
}

pub open spec fn cap_ok(c: Cap) -> bool { !c.pullable }
pub open spec fn g_init<T>() -> G<T> { G { dns: Seq::empty(), att: Seq::empty(), pos: Seq::empty(), ups: Seq::empty(), fan_on: false, fan_snap: Seq::empty(), fan_k: 0 } }
#[verifier::external_body] pub fn fresh_heap() -> (h: Heap) ensures !h.alloc_sinks && !h.alloc_ending && !h.alloc_source_talkback { unimplemented!() }
pub open spec fn alive(p: Up) -> bool { p == Up::Live || p == Up::Subscribing }
pub open spec fn cur<T>(g: G<T>) -> UpLink<T> { g.ups.last() }
pub open spec fn up_alive<T>(g: G<T>) -> bool { g.ups.len() > 0 && alive(cur(g).phase) }
pub open spec fn ids<T>(h: Heap) -> Seq<SinkH> { h.sinks.v@ }
pub open spec fn set_dn<T>(g: G<T>, id: int, l: DnLink<T>) -> G<T> { G { dns: g.dns.update(id, l), ..g } }
pub open spec fn set_cur<T>(g: G<T>, l: UpLink<T>) -> G<T> { G { ups: g.ups.update(g.ups.len() - 1, l), ..g } }
/// the upstream may emit at top level, or from inside share's own delivery only when that delivery is the last of its fan-out
pub open spec fn may_emit<T>(g: G<T>) -> bool { !g.fan_on || g.fan_k >= g.fan_snap.len() }

//@invpart safe @C17 list entries are known sinks, pairwise distinct; a live upstream has its talkback stored
//@invpart rc @C12 one upstream subscription, alive exactly while the list of attached sinks is non-empty
//@invpart att @C12 the attached sinks are exactly the listed ones, each greeted and live
//@invpart term @C02 at most one termination per link
//@invpart fwd @C05 an upstream error reaches every sink attached at that time
pub open spec fn inv_safe<T>(h: Heap, g: G<T>, c: Cap) -> bool {
    &&& cap_ok(c)
    &&& g.att.len() == g.dns.len()
    &&& (forall|k: int| 0 <= k < ids::<T>(h).len() ==> (#[trigger] ids::<T>(h)[k]).id < g.dns.len())
    &&& g.pos.len() == g.dns.len()
    &&& (g.ups.len() > 0 && cur(g).phase == Up::Live ==> h.source_talkback == Some(Tb::Up))
    &&& h.alloc_sinks && h.alloc_ending && h.alloc_source_talkback
    &&& h.ending.v@.len() == 0 // nobody is owed an end outside the hand-round of one
}
pub open spec fn inv_rc<T>(h: Heap, g: G<T>, c: Cap) -> bool {
    &&& (ids::<T>(h).len() > 0 <==> up_alive(g))
    &&& (forall|j: int| 0 <= j < g.ups.len() - 1 ==> !alive((#[trigger] g.ups[j]).phase))
    &&& (forall|j: int| 0 <= j < g.ups.len() ==> (#[trigger] g.ups[j]).phase != Up::Idle)
    &&& (g.ups.len() > 0 && cur(g).phase == Up::Subscribing ==> ids::<T>(h).len() == 1 && cur(g) == (UpLink { phase: Up::Subscribing, ..up_init::<T>() }) && g.dns[ids::<T>(h)[0].id as int].phase == Dn::NotGreeted)
}
pub open spec fn inv_att<T>(h: Heap, g: G<T>, c: Cap) -> bool {
    &&& (forall|k: int| 0 <= k < ids::<T>(h).len() ==> g.att[(#[trigger] ids::<T>(h)[k]).id as int] && g.pos[ids::<T>(h)[k].id as int] == k)
    &&& (forall|id: int| 0 <= id < g.dns.len() && (#[trigger] g.att[id]) ==> 0 <= g.pos[id] < ids::<T>(h).len() && ids::<T>(h)[g.pos[id]].id == id)
    &&& (forall|id: int| 0 <= id < g.dns.len() && (#[trigger] g.dns[id]).phase == Dn::Live ==> g.att[id])
    &&& (forall|k: int| 0 <= k < ids::<T>(h).len() ==> g.dns[(#[trigger] ids::<T>(h)[k]).id as int].phase == Dn::Live
            || (g.dns[ids::<T>(h)[k].id as int].phase == Dn::NotGreeted && g.ups.len() > 0 && cur(g).phase == Up::Subscribing))
}
/// the positions after the list element at index `i` has been removed
pub open spec fn shift(pos: Seq<int>, i: int) -> Seq<int> { Seq::new(pos.len(), |j: int| if pos[j] > i { pos[j] - 1 } else { pos[j] }) }
pub open spec fn fan_off<T>(ga: G<T>, gb: G<T>) -> bool { !ga.fan_on ==> !gb.fan_on }
pub open spec fn quiet<T>(g: G<T>) -> bool { !(g.ups.len() > 0 && cur(g).phase == Up::Subscribing) }
pub open spec fn inv_term<T>(h: Heap, g: G<T>, c: Cap) -> bool {
    &&& (forall|id: int| 0 <= id < g.dns.len() ==> (#[trigger] g.dns[id]).terms == (if g.dns[id].phase == Dn::EndedByUs { 1nat } else { 0nat }))
    &&& (forall|j: int| 0 <= j < g.ups.len() ==> (#[trigger] g.ups[j]).terms == (if g.ups[j].phase == Up::EndedByUs { 1nat } else { 0nat }))
}
pub open spec fn inv_fwd<T>(h: Heap, g: G<T>, c: Cap) -> bool {
    forall|id: int| 0 <= id < g.dns.len() && (#[trigger] g.dns[id]).phase != Dn::EndedByUs ==> g.dns[id].err is None
}
pub open spec fn dns_mono<T>(a: Seq<DnLink<T>>, b: Seq<DnLink<T>>) -> bool {
    &&& a.len() <= b.len()
    &&& (forall|j: int| #![trigger a[j]] #![trigger b[j]] 0 <= j < a.len() ==> dnl_mono(a[j], b[j]))
}
pub open spec fn ups_mono<T>(a: Seq<UpLink<T>>, b: Seq<UpLink<T>>) -> bool {
    &&& a.len() <= b.len()
    &&& (forall|j: int| #![trigger a[j]] #![trigger b[j]] 0 <= j < a.len() ==> upl_mono(a[j], b[j]))
}
pub open spec fn mono<T>(a: Heap, ga: G<T>, b: Heap, gb: G<T>) -> bool {
    &&& dns_mono(ga.dns, gb.dns)
    &&& ups_mono(ga.ups, gb.ups)
}

// ---------------------------------------------------------------------------------------------------
// environment: sinks (by id), the upstream source (one subscription per generation)
// ---------------------------------------------------------------------------------------------------
impl<T> Handle<G<T>, Message<T, Tb>> for SinkH {
    type HH = Heap;
    type CC = Cap;
    open spec fn gate(&self, k: int, h: Heap, g: G<T>, c: Cap, m: Message<T, Tb>) -> bool {
        let dn = g.dns[self.id as int];
        if k == $GATE_NO_PULL_DOWN { !(m is Pull) && self.id < g.dns.len() }
        else if k == $GATE_GREET_ONCE { self.id < g.dns.len() && (m is Handshake ==> dn.phase == Dn::NotGreeted) }
        else if k == $GATE_GREET_FIRST { self.id < g.dns.len() && (!(m is Handshake) ==> dn.phase != Dn::NotGreeted) }
        else if k == $GATE_AFTER_TERM { self.id < g.dns.len() && (!(m is Handshake) ==> dn.phase != Dn::EndedByUs) }
        else if k == $GATE_AFTER_DISPOSAL { self.id < g.dns.len() && (!(m is Handshake) ==> dn.phase != Dn::EndedBySink) }
        else if k == $GATE_SHARE_TB { m is Handshake ==> m->Handshake_0 == Tb::Sink(*self) }
        else { true }
    }
    open spec fn post(&self, g: G<T>, m: Message<T, Tb>) -> G<T> {
        let g1 = set_dn(g, self.id as int, dn_send(g.dns[self.id as int], m));
        let g2 = if m is Terminate || m is Error { G { att: g1.att.update(self.id as int, false), ..g1 } } else { g1 };
        if g.fan_on && !(m is Handshake) { G { fan_k: g.fan_k + 1, ..g2 } } else { g2 }
    }
    open spec fn needs_inv(&self, g: G<T>, m: Message<T, Tb>, p: int) -> bool { !(m is Terminate || m is Error) }
    /// a delivery of a fan-out goes to the next sink of the snapshot
    open spec fn extra(&self, h: Self::HH, g: G<T>, c: Self::CC, m: Message<T, Tb>) -> bool {
        g.fan_on && !(m is Handshake) ==> 0 <= g.fan_k < g.fan_snap.len() && g.fan_snap[g.fan_k] == *self
    }
}
impl SinkH {
    #[verifier::exec_allows_no_decreases_clause]
    pub fn call<T>(&self, h: &mut Heap, g: &mut Ghost<G<T>>, c: &Cap, m: Message<T, Tb>)
        requires
            GATES!(self, *old(h), old(g)@, *c, m),
            self.extra(*old(h), old(g)@, *c, m),
            self.needs_inv(old(g)@, m, $P) ==> INV!(*old(h), self.post(old(g)@, m), *c),
        ensures
            self.needs_inv(old(g)@, m, 0) ==> INV!(*final(h), final(g)@, *c),
            self.needs_inv(old(g)@, m, 0) ==> mono(*old(h), self.post(old(g)@, m), *final(h), final(g)@),
            self.needs_inv(old(g)@, m, 0) ==> fan_rel(*old(h), self.post(old(g)@, m), *final(h), final(g)@, self.id as int),
            !self.needs_inv(old(g)@, m, 0) ==> *final(h) == *old(h) && final(g)@ == self.post(old(g)@, m),
    {
        proof { g@ = self.post(g@, m); }
        if matches!(m, Message::Terminate | Message::Error(_)) { return; }
        let ghost h0 = *h; let ghost g0 = g@;
        loop
            invariant
                INV!(*h, g@, *c),
                mono(h0, g0, *h, g@), fan_rel(h0, g0, *h, g@, self.id as int),
                self.id < g@.dns.len(),
        {
            if nondet_bool() { break; }
            let ghost live = g@.dns[self.id as int].phase == Dn::Live;
            if ghost_test(Ghost(live)) {
                if nondet_bool() { share__sink_talkback(h, g, c, *self, Message::Pull); }
                else if nondet_bool() { share__sink_talkback(h, g, c, *self, Message::Terminate); }
                else { share__sink_talkback(h, g, c, *self, Message::Error(nondet_u64())); }
            }
        }
    }
}
/// what can change while sink `me` is being delivered to (profile R): only `me` may detach; a fan-out that
/// still has sinks to go is not disturbed; nobody attaches
pub open spec fn fan_rel<T>(a: Heap, ga: G<T>, b: Heap, gb: G<T>, me: int) -> bool {
    &&& gb.dns.len() == ga.dns.len()
    &&& (!may_emit(ga) ==> gb.fan_on == ga.fan_on && gb.fan_snap == ga.fan_snap && gb.fan_k == ga.fan_k && (forall|id: int| 0 <= id < ga.dns.len() && id != me ==> (#[trigger] gb.dns[id]) == ga.dns[id]))
    &&& gb.ups.len() == ga.ups.len()
    &&& fan_off(ga, gb) && (quiet(ga) ==> quiet(gb))
}
impl<T> Handle<G<T>, Message<Never, Never>> for Tb {
    type HH = Heap;
    type CC = Cap;
    open spec fn gate(&self, k: int, h: Heap, g: G<T>, c: Cap, m: Message<Never, Never>) -> bool {
        if k == $GATE_UP_KIND { (m is Pull || m is Terminate || m is Error) && *self is Up }
        else if k == $GATE_UP_GREETED { g.ups.len() > 0 && up_greeted(cur(g).phase) }
        else if k == $GATE_UP_PULL_LIVE { g.ups.len() > 0 && (m is Pull ==> cur(g).phase != Up::EndedByUs) }
        else if k == $GATE_UP_PULL_SELF { g.ups.len() > 0 && (m is Pull ==> cur(g).phase != Up::EndedBySelf && cur(g).phase != Up::ErroredBySelf) }
        else if k == $GATE_UP_TERM_ONCE { g.ups.len() > 0 && (!(m is Pull) ==> cur(g).phase != Up::EndedByUs) }
        else if k == $GATE_UP_TERM_SELF { g.ups.len() > 0 && (!(m is Pull) ==> cur(g).phase != Up::EndedBySelf && cur(g).phase != Up::ErroredBySelf) }
        else if k == $GATE_SHARE_LAST { !(m is Pull) ==> ids::<T>(h).len() == 0 }
        else { true }
    }
    open spec fn post(&self, g: G<T>, m: Message<Never, Never>) -> G<T> { set_cur(g, up_send(cur(g), m)) }
    open spec fn needs_inv(&self, g: G<T>, m: Message<Never, Never>, p: int) -> bool { m is Pull }
    open spec fn extra(&self, h: Self::HH, g: G<T>, c: Self::CC, m: Message<Never, Never>) -> bool { true }
}
impl Tb {
    #[verifier::exec_allows_no_decreases_clause]
    pub fn call<T>(&self, h: &mut Heap, g: &mut Ghost<G<T>>, c: &Cap, m: Message<Never, Never>)
        requires
            GATES!(self, *old(h), old(g)@, *c, m),
            self.extra(*old(h), old(g)@, *c, m),
            self.needs_inv(old(g)@, m, $P) ==> INV!(*old(h), self.post(old(g)@, m), *c),
        ensures
            self.needs_inv(old(g)@, m, 0) ==> INV!(*final(h), final(g)@, *c),
            self.needs_inv(old(g)@, m, 0) ==> mono(*old(h), self.post(old(g)@, m), *final(h), final(g)@),
            self.needs_inv(old(g)@, m, 0) ==> up_rel(*old(h), self.post(old(g)@, m), *final(h), final(g)@),
            !self.needs_inv(old(g)@, m, 0) ==> *final(h) == *old(h) && final(g)@ == self.post(old(g)@, m),
    {
        proof { g@ = self.post(g@, m); }
        if matches!(m, Message::Terminate | Message::Error(_)) { return; }
        up_events(h, g, c);
    }
}
/// what upstream events can change: nothing at all while a fan-out still has sinks to go
pub open spec fn up_rel<T>(a: Heap, ga: G<T>, b: Heap, gb: G<T>) -> bool {
    &&& gb.dns.len() == ga.dns.len() && gb.ups.len() == ga.ups.len()
    &&& (!may_emit(ga) ==> gb == ga && b == a)
    &&& fan_off(ga, gb) && (quiet(ga) ==> quiet(gb))
}
#[verifier::exec_allows_no_decreases_clause]
pub fn up_events<T>(h: &mut Heap, g: &mut Ghost<G<T>>, c: &Cap)
    requires
        INV!(*old(h), old(g)@, *c),
    ensures
        INV!(*final(h), final(g)@, *c),
        mono(*old(h), old(g)@, *final(h), final(g)@), up_rel(*old(h), old(g)@, *final(h), final(g)@),
{
    let ghost h0 = *h; let ghost g0 = g@;
    loop
        invariant
            INV!(*h, g@, *c),
            mono(h0, g0, *h, g@), up_rel(h0, g0, *h, g@),
    {
        if nondet_bool() { break; }
        let ghost ok = g@.ups.len() > 0 && cur(g@).phase == Up::Live && may_emit(g@);
        if ghost_test(Ghost(ok)) {
            let first = SinkH { id: nondet_usize() };
            if nondet_bool() { share__upstream(h, g, c, first, Message::Data(nondet::<T>())); }
            else if nondet_bool() { share__upstream(h, g, c, first, Message::Terminate); }
            else { share__upstream(h, g, c, first, Message::Error(nondet_u64())); }
        }
    }
}
impl<T> Handle<G<T>, Message<Never, Tok_anon>> for UpSrc {
    type HH = Heap;
    type CC = Cap;
    open spec fn gate(&self, k: int, h: Heap, g: G<T>, c: Cap, m: Message<Never, Tok_anon>) -> bool {
        if k == $GATE_SUB_KIND { m is Handshake }
        else if k == $GATE_SHARE_ONE_UP { !up_alive(g) && ids::<T>(h).len() == 1 && (m is Handshake ==> m->Handshake_0.sink == ids::<T>(h)[0]) }
        else { true }
    }
    open spec fn post(&self, g: G<T>, m: Message<Never, Tok_anon>) -> G<T> { G { ups: g.ups.push(UpLink { phase: Up::Subscribing, ..up_init::<T>() }), ..g } }
    open spec fn needs_inv(&self, g: G<T>, m: Message<Never, Tok_anon>, p: int) -> bool { true }
    open spec fn extra(&self, h: Self::HH, g: G<T>, c: Self::CC, m: Message<Never, Tok_anon>) -> bool { !g.fan_on }
}
impl UpSrc {
    #[verifier::exec_allows_no_decreases_clause]
    pub fn call<T>(&self, h: &mut Heap, g: &mut Ghost<G<T>>, c: &Cap, m: Message<Never, Tok_anon>)
        requires
            GATES!(self, *old(h), old(g)@, *c, m),
            self.extra(*old(h), old(g)@, *c, m),
            self.needs_inv(old(g)@, m, $P) ==> INV!(*old(h), self.post(old(g)@, m), *c),
        ensures
            INV!(*final(h), final(g)@, *c),
            mono(*old(h), self.post(old(g)@, m), *final(h), final(g)@),
            final(g)@.dns.len() == old(g)@.dns.len(),
            !final(g)@.fan_on && quiet(final(g)@),
            m is Handshake && m->Handshake_0.sink.id < old(g)@.dns.len() ==> final(g)@.dns[m->Handshake_0.sink.id as int].phase != Dn::NotGreeted,
    {
        proof { g@ = self.post(g@, m); }
        let first = match m { Message::Handshake(t) => t.sink, _ => SinkH { id: 0 } };
        share__upstream(h, g, c, first, Message::Handshake(Tb::Up));
        up_events(h, g, c);
    }
}

/// `share(source)`: the constructor allocates the state shared by all subscriptions (by design: C13 exempts share)
pub fn share__ctor<T>(h: &mut Heap, g: &mut Ghost<G<T>>, c: &Cap, source: UpSrc) -> (r: Tok_share)
    requires
        !old(h).alloc_sinks && !old(h).alloc_ending && !old(h).alloc_source_talkback, old(g)@ == g_init::<T>(), cap_ok(*c),
    ensures
        INV!(*final(h), final(g)@, *c),
        final(g)@ == old(g)@,
{
    BODY!("ctor")
}

/// a sink attaches
#[verifier::exec_allows_no_decreases_clause]
pub fn share__attach<T>(h: &mut Heap, g: &mut Ghost<G<T>>, c: &Cap, message: Message<Never, SinkH>)
    requires
        INV!(*old(h), old(g)@, *c),
        !old(g)@.fan_on, quiet(old(g)@),
        message is Handshake, message->Handshake_0.id == old(g)@.dns.len(), // a sink that has not attached before
    ensures
        INV!(*final(h), final(g)@, *c),
        !final(g)@.fan_on, quiet(final(g)@),
        final(g)@.dns.len() == old(g)@.dns.len() + 1,
        final(g)@.dns[old(g)@.dns.len() as int].phase != Dn::NotGreeted, /* @C01 an attaching sink is greeted */
        !up_alive(old(g)@) ==> final(g)@.ups.len() > old(g)@.ups.len(), /* @C12 attaching while no sink is attached starts a fresh upstream subscription */
        up_alive(old(g)@) ==> final(g)@.ups.len() == old(g)@.ups.len(), /* @C12 at most one upstream subscription */
{
    let source = UpSrc {}; let sinks = Cell_sinks {}; let ending = Cell_ending {}; let source_talkback = Cell_source_talkback {};
    proof { g@ = G { dns: g@.dns.push(dn_init()), att: g@.att.push(true), pos: g@.pos.push(ids::<T>(*h).len() as int), ..g@ }; }
    BODY!("share");
}

//@split Pull Terminate Error
#[verifier::exec_allows_no_decreases_clause]
pub fn share__sink_talkback<T>(h: &mut Heap, g: &mut Ghost<G<T>>, c: &Cap, sink: SinkH, message: Message<Never, Never>)
    requires
        INV!(*old(h), old(g)@, *c),
        sink.id < old(g)@.dns.len(), old(g)@.dns[sink.id as int].phase == Dn::Live,
        message is Pull || message is Terminate || message is Error,
    ensures
        INV!(*final(h), final(g)@, *c),
        mono(*old(h), old(g)@, *final(h), final(g)@), /* @C02 phases only move forward */
        fan_rel(*old(h), old(g)@, *final(h), final(g)@, sink.id as int),
        (message is Terminate || message is Error) ==> final(g)@.dns[sink.id as int].phase == Dn::EndedBySink && !final(g)@.att[sink.id as int], /* @C03 a detached sink hears nothing more */
        (message is Terminate || message is Error) && ids::<T>(*final(h)).len() == 0 ==> !up_alive(final(g)@), /* @C12 the upstream is disposed when the last attached sink detaches */
{
    let sinks = Cell_sinks {}; let ending = Cell_ending {}; let source_talkback = Cell_source_talkback {};
    proof {
        g@ = set_dn(g@, sink.id as int, dn_recv(g@.dns[sink.id as int], message));
        if !(message is Pull) { g@ = G { att: g@.att.update(sink.id as int, false), pos: shift(g@.pos, g@.pos[sink.id as int]), ..g@ }; }
    }
    BODY!("sink_talkback");
}

//@split Handshake Data Error Terminate
#[verifier::exec_allows_no_decreases_clause]
#[verifier::loop_isolation(false)]
#[verifier::rlimit(150)]
pub fn share__upstream<T>(h: &mut Heap, g: &mut Ghost<G<T>>, c: &Cap, sink: SinkH, message: Message<T, Tb>)
    requires
        INV!(*old(h), old(g)@, *c),
        old(g)@.ups.len() > 0, !(message is Pull),
        message is Handshake ==> message->Handshake_0 == Tb::Up && cur(old(g)@).phase == Up::Subscribing && !old(g)@.fan_on && ids::<T>(*old(h)).len() == 1 && sink == ids::<T>(*old(h))[0],
        !(message is Handshake) ==> cur(old(g)@).phase == Up::Live && may_emit(old(g)@),
    ensures
        INV!(*final(h), final(g)@, *c),
        mono(*old(h), old(g)@, *final(h), final(g)@), /* @C02 phases only move forward */
        final(g)@.dns.len() == old(g)@.dns.len(), final(g)@.ups.len() == old(g)@.ups.len(),
        !final(g)@.fan_on, quiet(final(g)@),
        message is Handshake && sink.id < old(g)@.dns.len() ==> final(g)@.dns[sink.id as int].phase != Dn::NotGreeted, /* @C01 the first sink is greeted when the upstream greets */
        message is Data ==> (forall|k: int| 0 <= k < ids::<T>(*old(h)).len() ==> (#[trigger] final(g)@.dns[ids::<T>(*old(h))[k].id as int]).data.len() > old(g)@.dns[ids::<T>(*old(h))[k].id as int].data.len()), /* @C12 every attached sink receives every datum */
        message is Terminate ==> (forall|k: int| 0 <= k < ids::<T>(*old(h)).len() ==> (#[trigger] final(g)@.dns[ids::<T>(*old(h))[k].id as int]).phase == Dn::EndedByUs), /* @C12 every attached sink receives the termination */
        message is Error ==> (forall|k: int| 0 <= k < ids::<T>(*old(h)).len() ==> (#[trigger] final(g)@.dns[ids::<T>(*old(h))[k].id as int]).phase == Dn::EndedByUs && final(g)@.dns[ids::<T>(*old(h))[k].id as int].err == Some(message->Error_0)), /* @C05 every attached sink receives the upstream error, unchanged */
{
    let sinks = Cell_sinks {}; let ending = Cell_ending {}; let source_talkback = Cell_source_talkback {};
    let talkback = Tb::Sink(sink);
    let ghost snap = ids::<T>(*h);
    let ghost g_in = g@;
    proof {
        g@ = set_cur(g@, up_recv(cur(g@), message));
        if !(message is Handshake) { g@ = G { fan_on: true, fan_snap: snap, fan_k: 0, ..g@ }; }
    }
    BODY!("anon");
    proof { if !(message is Handshake) { g@ = G { fan_on: false, ..g@ }; } }
}
// loop 0: the end of the upstream subscription is handed round (every sink has been detached at once and is owed it)
INVARIANT!("anon", 0) {
    invariant
        __it0.v@ == snap, g@.dns.len() == g_in.dns.len(), g@.ups.len() == g_in.ups.len(),
        __k0 < snap.len() ==> g@.fan_on && g@.fan_snap == snap && g@.fan_k == __k0,
        mono(*old(h), old(g)@, *h, g@),
        snap_ok(snap, g_in),
        !(message is Data) && !(message is Handshake),
        ending_inv(*h, g@, *c, snap, __k0 as int), /* @C12,C02 the list is emptied at once; the sinks still owed the end are exactly the ones of the snapshot not told yet */
        (forall|j: int| 0 <= j < __k0 && j < snap.len() ==> g@.dns[(#[trigger] snap[j]).id as int].phase == Dn::EndedByUs), /* @C12 every attached sink receives the termination */
        message is Error ==> (forall|j: int| 0 <= j < __k0 && j < snap.len() ==> g@.dns[(#[trigger] snap[j]).id as int].err == Some(message->Error_0)), /* @C05 every attached sink receives the upstream error, unchanged */
        message is Terminate ==> (forall|j: int| 0 <= j < __k0 && j < snap.len() ==> g@.dns[(#[trigger] snap[j]).id as int].err is None), /* @C05 a completion is not turned into an error */
}
// loop 1: a datum is fanned out over a snapshot of the list
INVARIANT!("anon", 1) {
    invariant
        __it1.v@ == snap, g@.dns.len() == g_in.dns.len(), g@.ups.len() == g_in.ups.len(),
        __k1 < snap.len() ==> g@.fan_on && g@.fan_snap == snap && g@.fan_k == __k1,
        mono(*old(h), old(g)@, *h, g@),
        snap_ok(snap, g_in),
        message is Data,
        INV!(*h, g@, *c),
        (forall|j: int| __k1 <= j < snap.len() ==> g@.dns[(#[trigger] snap[j]).id as int] == g_in.dns[snap[j].id as int]),
        (forall|j: int| 0 <= j < __k1 && j < snap.len() ==> g@.dns[(#[trigger] snap[j]).id as int].data.len() > g_in.dns[snap[j].id as int].data.len()), /* @C12 every attached sink receives every datum */
        (__k1 >= snap.len() || quiet(g@)),
}
/// the snapshot lists known, pairwise distinct sinks that were live when the fan-out began
pub open spec fn snap_ok<T>(snap: Seq<SinkH>, g_in: G<T>) -> bool {
    &&& (forall|j: int| 0 <= j < snap.len() ==> (#[trigger] snap[j]).id < g_in.dns.len() && g_in.dns[snap[j].id as int].phase == Dn::Live)
    &&& (forall|i: int, j: int| 0 <= i < j < snap.len() ==> (#[trigger] snap[i]).id != (#[trigger] snap[j]).id)
}
/// the upstream has ended: the list of attached sinks has been emptied at once, the sinks of the snapshot are told
/// one after the other; those still owed the end are `snap[k..]`, kept in the cell `ending`
pub open spec fn ending_inv<T>(h: Heap, g: G<T>, c: Cap, snap: Seq<SinkH>, k: int) -> bool {
    &&& cap_ok(c) && g.att.len() == g.dns.len() && g.pos.len() == g.dns.len()
    &&& h.alloc_sinks && h.alloc_ending && h.alloc_source_talkback
    &&& inv_term(h, g, c)
    &&& ids::<T>(h).len() == 0
    &&& 0 <= k <= snap.len() && h.ending.v@.len() == snap.len() - k
    &&& (forall|j: int| 0 <= j < snap.len() - k ==> (#[trigger] h.ending.v@[j]) == snap[k + j])
    &&& (k < snap.len() ==> h.ending.v@[0] == snap[k])
    &&& g.ups.len() > 0 && !alive(cur(g).phase) && cur(g).phase != Up::Idle
    &&& (forall|j: int| 0 <= j < g.ups.len() - 1 ==> !alive((#[trigger] g.ups[j]).phase))
    &&& (forall|j: int| 0 <= j < g.ups.len() ==> (#[trigger] g.ups[j]).phase != Up::Idle)
    &&& (forall|id: int| 0 <= id < g.dns.len() && (#[trigger] g.dns[id]).phase == Dn::Live ==> g.att[id])
    &&& (forall|id: int| 0 <= id < g.dns.len() && (#[trigger] g.att[id]) ==> k <= g.pos[id] < snap.len() && snap[g.pos[id]].id == id)
    &&& (forall|j: int| k <= j < snap.len() ==> g.att[(#[trigger] snap[j]).id as int] && g.pos[snap[j].id as int] == j && g.dns[snap[j].id as int].phase == Dn::Live)
    &&& (forall|id: int| 0 <= id < g.dns.len() && (#[trigger] g.dns[id]).phase != Dn::EndedByUs ==> g.dns[id].err is None)
    &&& (cur(g).phase == Up::ErroredBySelf ==> cur(g).err is Some)
}

/// Every history with conformant peers (profile R) is an execution of `world`.
#[verifier::exec_allows_no_decreases_clause]
pub fn world<T>(c: &Cap)
    requires cap_ok(*c)
{
    let mut h: Heap = fresh_heap();
    let mut g: Ghost<G<T>> = Ghost(g_init());
    let shared = share__ctor(&mut h, &mut g, c, UpSrc {});
    loop
        invariant
            INV!(h, g@, *c),
            !g@.fan_on, quiet(g@),
    {
        let ch = nondet_usize();
        if ch == 0 {
            let id = ghost_reveal(Ghost(g@.dns.len()));
            share__attach(&mut h, &mut g, c, Message::Handshake(SinkH { id }));
        } else if ch == 1 {
            up_events(&mut h, &mut g, c);
        } else {
            let id = nondet_usize();
            let ghost live = id < g@.dns.len() && g@.dns[id as int].phase == Dn::Live;
            if ghost_test(Ghost(live)) {
                if nondet_bool() { share__sink_talkback(&mut h, &mut g, c, SinkH { id }, Message::Pull); }
                else if nondet_bool() { share__sink_talkback(&mut h, &mut g, c, SinkH { id }, Message::Terminate); }
                else { share__sink_talkback(&mut h, &mut g, c, SinkH { id }, Message::Error(nondet_u64())); }
            }
        }
    }
}
