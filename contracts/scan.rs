// ===================================================================================================
// scan(reducer, seed): contract template.  Handler bodies are extracted from /repo/src/scan.rs.
// ===================================================================================================
//@op scan
//@properties C01 C02 C03 C04 C05 C06 C07 C13 C14 C17 C20
//@ignore ctor = Tok_apply {}
//@ignore apply = let source = source.into(); Tok_scan {}
//@heap Heap<O>
//@tp I, O
//@celltp O

pub struct G<I, O> { pub dn: DnLink<O>, pub up: UpLink<I>, pub r_calls: nat }
pub struct Cap { pub pullable: bool }
pub struct Heap<O> { pub acc: O, pub alloc_acc: bool }
#[derive(Clone, Copy)] pub struct Tok_sink_talkback {}
#[derive(Clone, Copy)] pub struct Tok_source_talkback {}
//@cell acc: O = swap

pub uninterp spec fn user_r<I, O>(a: O, x: I) -> O;
pub uninterp spec fn user_seed<O>() -> O;
/// the user's reducer: a deterministic function of its arguments that does not touch the operator
#[derive(Clone, Copy)] pub struct UserR {}
impl UserR {
    #[verifier::external_body]
    pub fn call<I, O>(&self, h: &mut Heap<O>, g: &mut Ghost<G<I, O>>, c: &Cap, a: O, x: I) -> (r: O)
        ensures r == user_r::<I, O>(a, x), *final(h) == *old(h), final(g)@ == (G { r_calls: old(g)@.r_calls + 1, ..old(g)@ }),
    { unimplemented!() }
}
/// the `seed` captured by the operator
#[verifier::external_body] pub fn seed_val<O>() -> (r: O) ensures r == user_seed::<O>() { unimplemented!() }

/// running fold of the reducer over the input so far
pub open spec fn fold<I, O>(s: Seq<I>) -> O
    decreases s.len()
{
    if s.len() == 0 { user_seed::<O>() } else { user_r::<I, O>(fold::<I, O>(s.drop_last()), s.last()) }
}
/// the list of running folds: scan_seq(s)[k] = fold(s[0..=k])
pub open spec fn scan_seq<I, O>(s: Seq<I>) -> Seq<O> {
    Seq::new(s.len(), |k: int| fold::<I, O>(s.take(k + 1)))
}
pub proof fn lemma_scan_push<I, O>(s: Seq<I>, x: I)
    ensures
        fold::<I, O>(s.push(x)) == user_r::<I, O>(fold::<I, O>(s), x),
        scan_seq::<I, O>(s.push(x)) =~= scan_seq::<I, O>(s).push(fold::<I, O>(s.push(x))),
{
    assert(s.push(x).drop_last() =~= s);
    assert(s.push(x).take(s.len() as int + 1) =~= s.push(x));
    assert forall|k: int| 0 <= k < s.len() implies #[trigger] s.push(x).take(k + 1) =~= s.take(k + 1) by {}
}

pub open spec fn cap_ok(c: Cap) -> bool { true }
pub open spec fn g_init<I, O>() -> G<I, O> { G { dn: dn_init(), up: up_init(), r_calls: 0 } }
#[verifier::external_body] pub fn fresh_heap<O>() -> (h: Heap<O>) ensures !h.alloc_acc { unimplemented!() }

//@include passthrough_common.rs TP="I, O" G="G<I, O>" HEAP=Heap<O>
//@invpart data @C07,C06 scan: output is the list of running folds of the input, reducer applied once per item
//@invpart pull @C14,C06 demand conservation: every sink Pull is carried upstream
pub open spec fn inv_data<I, O>(h: Heap<O>, g: G<I, O>, c: Cap) -> bool {
    &&& g.dn.data =~= scan_seq::<I, O>(g.up.data)
    &&& (g.up.phase != Up::Idle ==> h.acc == fold::<I, O>(g.up.data))
    &&& g.r_calls == g.up.data.len()
}
pub open spec fn inv_pull<I, O>(h: Heap<O>, g: G<I, O>, c: Cap) -> bool {
    c.pullable ==> g.up.pulls == g.dn.pulls && g.up.data.len() <= g.up.pulls
}
pub open spec fn mono<I, O>(a: Heap<O>, ga: G<I, O>, b: Heap<O>, gb: G<I, O>) -> bool {
    &&& dnl_mono(ga.dn, gb.dn)
    &&& upl_mono(ga.up, gb.up)
    &&& (a.alloc_acc ==> b.alloc_acc)
}

//@include env_unary.rs OP=scan TP="I, O" G="G<I, O>" GNAME=G HEAP=Heap<O> I=I O=O

#[verifier::exec_allows_no_decreases_clause]
pub fn scan__subscribe<I, O>(h: &mut Heap<O>, g: &mut Ghost<G<I, O>>, c: &Cap, message: Message<Never, SinkH>)
    requires
        message is Handshake, old(g)@ == g_init::<I, O>(),
        !old(h).alloc_acc,
    ensures
        INV!(*final(h), final(g)@, *c),
        final(h).alloc_acc, /* @C13 the accumulator is allocated per subscription */
{
    let source = UpSrc {}; let reducer = UserR {}; let seed = seed_val::<O>();
    BODY!("scan");
}

#[verifier::exec_allows_no_decreases_clause]
pub fn scan__source_talkback<I, O>(h: &mut Heap<O>, g: &mut Ghost<G<I, O>>, c: &Cap, message: Message<I, UpTb>)
    requires
        INV!(*old(h), old(g)@, *c),
        !(message is Pull),
        message is Handshake ==> old(g)@.up.phase == Up::Subscribing,
        !(message is Handshake) ==> old(g)@.up.phase == Up::Live,
        message is Data && c.pullable ==> old(g)@.up.data.len() < old(g)@.up.pulls, // profile P: a pullable upstream answers an outstanding Pull only
    ensures
        INV!(*final(h), final(g)@, *c),
        mono(*old(h), old(g)@, *final(h), final(g)@), /* @C02 phases only move forward */
        message is Data ==> final(g)@.dn.data.len() > old(g)@.dn.data.len(), /* @C07 the output is delivered during the delivery of the input */
        message is Error ==> final(g)@.dn.phase == Dn::EndedByUs && final(g)@.dn.err == Some(message->Error_0), /* @C05 error forwarded once, unchanged */
        message is Terminate ==> final(g)@.dn.phase == Dn::EndedByUs && final(g)@.dn.err is None, /* @C07 completes exactly when upstream does */
{
    let sink = SinkH {}; let reducer = UserR {}; let acc = Cell_acc {};
    proof {
        if message is Data { lemma_scan_push::<I, O>(g@.up.data, message->Data_0); }
        g@ = G { up: up_recv(g@.up, message), ..g@ };
    }
    BODY!("source_talkback");
}

#[verifier::exec_allows_no_decreases_clause]
pub fn scan__sink_talkback<I, O>(h: &mut Heap<O>, g: &mut Ghost<G<I, O>>, c: &Cap, message: Message<Never, Never>)
    requires
        INV!(*old(h), old(g)@, *c),
        old(g)@.dn.phase == Dn::Live,
        message is Pull || message is Terminate || message is Error,
    ensures
        INV!(*final(h), final(g)@, *c),
        mono(*old(h), old(g)@, *final(h), final(g)@), /* @C02 phases only move forward */
        sink_rel(*old(h), old(g)@, *final(h), final(g)@, *c),
        (message is Terminate || message is Error) ==> final(g)@.up.phase != Up::Live, /* @C04 disposal reaches the upstream */
        (message is Terminate || message is Error) ==> final(g)@.dn.phase == Dn::EndedBySink, /* @C03 no termination back to a sink that disposed */
        message is Error ==> final(g)@.up.term_err == Some(message->Error_0), /* @C04 a sink Error goes upstream as that Error */
{
    let source = UpTb {};
    proof { g@ = G { dn: dn_recv(g@.dn, message), ..g@ }; }
    BODY!("sink_talkback");
}
