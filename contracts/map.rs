// ===================================================================================================
// map(f): contract template.  Handler bodies are extracted from /repo/src/map.rs on every run.
// ===================================================================================================
//@op map
//@properties C01 C02 C03 C04 C05 C06 C07 C14 C17 C20
//@ignore ctor = Tok_apply {}
//@ignore apply = let source = source.into(); Tok_map {}
//@heap Heap
//@tp I, O
//@celltp

pub struct G<I, O> { pub dn: DnLink<O>, pub up: UpLink<I>, pub f_calls: nat }
pub struct Cap { pub pullable: bool }
pub struct Heap { pub unit: bool }
#[derive(Clone, Copy)] pub struct Tok_sink_talkback {}
#[derive(Clone, Copy)] pub struct Tok_source_talkback {}

pub uninterp spec fn user_f<I, O>(x: I) -> O;
/// the user's closure: a deterministic function of its argument that does not touch the operator
#[derive(Clone, Copy)] pub struct UserF {}
impl UserF {
    #[verifier::external_body]
    pub fn call<I, O>(&self, h: &mut Heap, g: &mut Ghost<G<I, O>>, c: &Cap, x: I) -> (r: O)
        ensures r == user_f::<I, O>(x), *final(h) == *old(h), final(g)@ == (G { f_calls: old(g)@.f_calls + 1, ..old(g)@ }),
    { unimplemented!() }
}

pub open spec fn cap_ok(c: Cap) -> bool { true }
pub open spec fn g_init<I, O>() -> G<I, O> { G { dn: dn_init(), up: up_init(), f_calls: 0 } }
#[verifier::external_body] pub fn fresh_heap() -> (h: Heap) { unimplemented!() }

//@include passthrough_common.rs TP="I, O" G="G<I, O>" HEAP=Heap
//@invpart data @C07,C06 map: output is the image of the input under f, each f(x) computed once
//@invpart pull @C14,C06 demand conservation: every sink Pull is carried upstream
pub open spec fn inv_data<I, O>(h: Heap, g: G<I, O>, c: Cap) -> bool {
    &&& g.dn.data =~= g.up.data.map_values(|x: I| user_f::<I, O>(x))
    &&& g.f_calls == g.up.data.len()
}
pub open spec fn inv_pull<I, O>(h: Heap, g: G<I, O>, c: Cap) -> bool {
    c.pullable ==> g.up.pulls == g.dn.pulls && g.up.data.len() <= g.up.pulls
}
pub open spec fn mono<I, O>(a: Heap, ga: G<I, O>, b: Heap, gb: G<I, O>) -> bool {
    &&& dnl_mono(ga.dn, gb.dn)
    &&& upl_mono(ga.up, gb.up)
}

//@include env_unary.rs OP=map TP="I, O" G="G<I, O>" GNAME=G HEAP=Heap I=I O=O

#[verifier::exec_allows_no_decreases_clause]
pub fn map__subscribe<I, O>(h: &mut Heap, g: &mut Ghost<G<I, O>>, c: &Cap, message: Message<Never, SinkH>)
    requires
        message is Handshake, old(g)@ == g_init::<I, O>(),
    ensures
        INV!(*final(h), final(g)@, *c),
{
    let source = UpSrc {}; let f = UserF {};
    BODY!("map");
}

#[verifier::exec_allows_no_decreases_clause]
pub fn map__source_talkback<I, O>(h: &mut Heap, g: &mut Ghost<G<I, O>>, c: &Cap, message: Message<I, UpTb>)
    requires
        INV!(*old(h), old(g)@, *c),
        !(message is Pull),
        message is Handshake ==> old(g)@.up.phase == Up::Subscribing,
        !(message is Handshake) ==> old(g)@.up.phase == Up::Live,
        message is Data && c.pullable ==> old(g)@.up.data.len() < old(g)@.up.pulls, // profile P: a pullable upstream answers an outstanding Pull only
    ensures
        INV!(*final(h), final(g)@, *c),
        mono(*old(h), old(g)@, *final(h), final(g)@), /* @C02 phases only move forward */
        message is Data ==> final(g)@.dn.data.len() > old(g)@.dn.data.len(), /* @C07 the output is delivered during the delivery of the input */
        message is Error ==> final(g)@.dn.phase == Dn::EndedByUs && final(g)@.dn.err == Some(message->Error_0), /* @C05 error forwarded once, unchanged */
        message is Terminate ==> final(g)@.dn.phase == Dn::EndedByUs && final(g)@.dn.err is None, /* @C07 completes exactly when upstream does */
{
    let sink = SinkH {}; let f = UserF {};
    proof { g@ = G { up: up_recv(g@.up, message), ..g@ }; }
    BODY!("source_talkback");
}

#[verifier::exec_allows_no_decreases_clause]
pub fn map__sink_talkback<I, O>(h: &mut Heap, g: &mut Ghost<G<I, O>>, c: &Cap, message: Message<Never, Never>)
    requires
        INV!(*old(h), old(g)@, *c),
        old(g)@.dn.phase == Dn::Live,
        message is Pull || message is Terminate || message is Error,
    ensures
        INV!(*final(h), final(g)@, *c),
        mono(*old(h), old(g)@, *final(h), final(g)@), /* @C02 phases only move forward */
        sink_rel(*old(h), old(g)@, *final(h), final(g)@, *c),
        (message is Terminate || message is Error) ==> final(g)@.up.phase != Up::Live, /* @C04 disposal reaches the upstream */
        (message is Terminate || message is Error) ==> final(g)@.dn.phase == Dn::EndedBySink, /* @C03 no termination back to a sink that disposed */
        message is Error ==> final(g)@.up.term_err == Some(message->Error_0), /* @C04 a sink Error goes upstream as that Error */
{
    let source = UpTb {};
    proof { g@ = G { dn: dn_recv(g@.dn, message), ..g@ }; }
    BODY!("sink_talkback");
}
