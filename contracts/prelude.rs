// ===================================================================================================
// Shared prelude (DESIGN §2.1): protocol messages, ghost link state, trusted primitives.
// This text is spliced inside `verus! { … }` in front of every contract template.
// ===================================================================================================
pub type ErrId = u64;

/// callbag::Message<I, O>; the handshake payload is an abstract handle, the error an abstract id.
pub enum Message<I, O> { Handshake(O), Data(I), Pull, Error(ErrId), Terminate }
pub struct Never {}
pub struct AtomicOrdering {}
impl AtomicOrdering {
    pub const Acquire: AtomicOrdering = AtomicOrdering {};
    pub const Release: AtomicOrdering = AtomicOrdering {};
    pub const AcqRel: AtomicOrdering = AtomicOrdering {};
    pub const Relaxed: AtomicOrdering = AtomicOrdering {};
    pub const SeqCst: AtomicOrdering = AtomicOrdering {};
}

// ---- trusted primitives (the only `external_body` items of the prelude; listed in every evidence file)
#[verifier::external_body] pub fn nondet_bool() -> bool { unimplemented!() }
#[verifier::external_body] pub fn nondet_u64() -> u64 { unimplemented!() }
#[verifier::external_body] pub fn nondet_usize() -> usize { unimplemented!() }
#[verifier::external_body] pub fn nondet<T>() -> T { unimplemented!() }
#[verifier::external_body] pub fn nondet_ghost_int() -> Ghost<int> { unimplemented!() }
/// R10: `Clone` on data values is faithful.
/// `Option::replace` (std, not specified in vstd): stores the value, returns the previous content
pub assume_specification<T>[ Option::<T>::replace ](o: &mut Option<T>, value: T) -> (r: Option<T>)
    ensures r == *old(o), *final(o) == Some(value);
#[verifier::external_body] pub fn clone_val<T>(x: &T) -> (r: T) ensures r == *x { unimplemented!() }
/// R3: `Arc::clone` yields an alias of the same object (handles are `Copy` tokens here).
pub fn arc_clone<X: Copy>(x: &X) -> (r: X) ensures r == *x { *x }
/// R2: a tracing event evaluates its arguments and has no other effect.
pub fn trace_event<X>(x: &X) {}

// ---- ghost link state
#[derive(PartialEq, Eq)] pub enum Dn { NotGreeted, Live, EndedByUs, EndedBySink }
#[derive(PartialEq, Eq)] pub enum Up { Idle, Subscribing, Live, EndedBySelf, ErroredBySelf, EndedByUs }

/// What has crossed the interface between the operator output and its sink.
pub struct DnLink<T> {
    pub phase: Dn,
    pub data: Seq<T>,          // data delivered to the sink, in order
    pub pulls: nat,            // Pulls received from the sink
    pub terms: nat,            // Terminate/Error delivered to the sink
    pub err: Option<ErrId>,    // the error delivered to the sink, if any
    pub sink_err: Option<ErrId>, // the error the sink disposed with, if any
}
/// What has crossed the interface between the operator and one upstream source.
pub struct UpLink<T> {
    pub phase: Up,
    pub data: Seq<T>,          // data received from this upstream, in order
    pub pulls: nat,            // Pulls sent to it
    pub terms: nat,            // Terminate/Error sent to it
    pub term_err: Option<ErrId>, // Some(e) if we terminated it with Error(e)
    pub err: Option<ErrId>,    // the error it failed with, if any
}
pub open spec fn dn_init<T>() -> DnLink<T> { DnLink { phase: Dn::NotGreeted, data: Seq::empty(), pulls: 0, terms: 0, err: None, sink_err: None } }
pub open spec fn up_init<T>() -> UpLink<T> { UpLink { phase: Up::Idle, data: Seq::empty(), pulls: 0, terms: 0, term_err: None, err: None } }

/// we deliver `m` to the sink
pub open spec fn dn_send<T, H>(l: DnLink<T>, m: Message<T, H>) -> DnLink<T> {
    match m {
        Message::Handshake(_) => DnLink { phase: Dn::Live, ..l },
        Message::Data(d) => DnLink { data: l.data.push(d), ..l },
        Message::Terminate => DnLink { phase: Dn::EndedByUs, terms: l.terms + 1, ..l },
        Message::Error(e) => DnLink { phase: Dn::EndedByUs, terms: l.terms + 1, err: Some(e), ..l },
        Message::Pull => l,
    }
}
/// the sink talks back on the talkback it was given
pub open spec fn dn_recv<T, A, B>(l: DnLink<T>, m: Message<A, B>) -> DnLink<T> {
    match m {
        Message::Pull => DnLink { pulls: l.pulls + 1, ..l },
        Message::Terminate => DnLink { phase: Dn::EndedBySink, ..l },
        Message::Error(e) => DnLink { phase: Dn::EndedBySink, sink_err: Some(e), ..l },
        _ => l,
    }
}
/// an upstream source delivers `m` to us
pub open spec fn up_recv<T, H>(l: UpLink<T>, m: Message<T, H>) -> UpLink<T> {
    match m {
        Message::Handshake(_) => UpLink { phase: Up::Live, ..l },
        Message::Data(d) => UpLink { data: l.data.push(d), ..l },
        Message::Terminate => UpLink { phase: Up::EndedBySelf, ..l },
        Message::Error(e) => UpLink { phase: Up::ErroredBySelf, err: Some(e), ..l },
        Message::Pull => l,
    }
}
/// we talk to an upstream source on its talkback
pub open spec fn up_send<T, A, B>(l: UpLink<T>, m: Message<A, B>) -> UpLink<T> {
    match m {
        Message::Pull => UpLink { pulls: l.pulls + 1, ..l },
        Message::Terminate => UpLink { phase: Up::EndedByUs, terms: l.terms + 1, ..l },
        Message::Error(e) => UpLink { phase: Up::EndedByUs, terms: l.terms + 1, term_err: Some(e), ..l },
        _ => l,
    }
}
pub open spec fn dn_over(p: Dn) -> bool { p == Dn::EndedByUs || p == Dn::EndedBySink }
pub open spec fn up_over(p: Up) -> bool { p == Up::EndedBySelf || p == Up::ErroredBySelf || p == Up::EndedByUs }
pub open spec fn up_greeted(p: Up) -> bool { p != Up::Idle && p != Up::Subscribing }
/// phases only move forward
pub open spec fn dn_mono(a: Dn, b: Dn) -> bool {
    &&& (dn_over(a) ==> b == a)
    &&& (a == Dn::Live ==> b != Dn::NotGreeted)
}
pub open spec fn up_mono(a: Up, b: Up) -> bool {
    &&& (up_over(a) ==> b == a)
    &&& (a == Up::Live ==> b != Up::Idle && b != Up::Subscribing)
    &&& (a == Up::Subscribing ==> b != Up::Idle)
}
pub open spec fn dnl_mono<T>(a: DnLink<T>, b: DnLink<T>) -> bool {
    &&& dn_mono(a.phase, b.phase)
    &&& a.data.len() <= b.data.len()
    &&& a.pulls <= b.pulls
    &&& a.terms <= b.terms
}
pub open spec fn upl_mono<T>(a: UpLink<T>, b: UpLink<T>) -> bool {
    &&& up_mono(a.phase, b.phase)
    &&& a.data.len() <= b.data.len()
    &&& a.pulls <= b.pulls
    &&& a.terms <= b.terms
}
/// The environment's choices may depend on the history: an oracle that reveals a ghost boolean.
/// (How the conformance hypothesis on peers enters: the most general conformant peer only ever
/// chooses protocol-admissible actions.)
#[verifier::external_body] pub fn ghost_test(b: Ghost<bool>) -> (r: bool) ensures r == b@ { unimplemented!() }

/// A peer handle (sink, upstream source, upstream talkback, user closure).  `gate(k, ..)` is the k-th
/// call-site clause of the global gate table (bin/gates.py); `post` is the ghost state after the event
/// has been recorded; `needs_inv` says whether the peer may re-enter the operator during the call (then
/// the yield-point invariant must hold in the `post` state).
pub trait Handle<GG, M> {
    type HH;
    type CC;
    spec fn gate(&self, k: int, h: Self::HH, g: GG, c: Self::CC, m: M) -> bool;
    spec fn post(&self, g: GG, m: M) -> GG;
    /// does the peer re-enter during this call, so that invariant part `p` must hold in the `post` state?
    spec fn needs_inv(&self, g: GG, m: M, p: int) -> bool;
    /// any further side condition of the call (operator-specific), asserted separately at every call site
    spec fn extra(&self, h: Self::HH, g: GG, c: Self::CC, m: M) -> bool;
}
/// reveals a ghost natural number to the environment (same role as `ghost_test`)
#[verifier::external_body] pub fn ghost_reveal(n: Ghost<nat>) -> (r: usize) ensures r == n@ { unimplemented!() }
/// R4f: marks one atomic read-modify-write step (the inlined closure of `fetch_update`)
pub fn atomic<X>(x: X) -> (r: X) ensures r == x { x }
