// ===================================================================================================
// merge!(members..): contract template.  Members greet inside the subscribing call or LATER, at top level, in
// any order (LATE environment); a member that greets after the output is over is told to stop and not counted.
// Handler bodies are extracted from /repo/src/merge.rs: subscription closure (with its loop), sink
// talkback (broadcast loop) and the member handler (with its sibling-disposal loop).
// ===================================================================================================
//@op merge
//@properties C01 C02 C03 C04 C05 C08 C13 C17 C20
//@ignore ctor = let sources = Vec::from(sources).into_iter().map(|s| s.into()).collect(); Tok_merge {}
//@token source_talkback => Tok_source_talkback { i: i }
//@heap Heap
//@tp T
//@celltp
//@extratag @C04 a member is subscribed only while no other subscription is in progress

pub struct G<T> {
    pub dn: DnLink<T>,
    pub ups: Seq<UpLink<T>>,
    pub greeted: Seq<bool>,     // member i has greeted        (changes only when member i greets)
    pub completed: Seq<bool>,   // member i has completed      (changes only when member i completes)
    pub turned: Seq<bool>,      // member i greeted after the output was over and was told to stop at once (it is not counted)
    pub arr: Seq<T>,            // every datum of every member, in arrival order
}
pub struct Cap { pub n: usize, pub pullable: bool }
pub struct Heap {
    pub source_talkbacks: Vec<Option<UpTb>>, pub start_count: usize, pub end_count: usize, pub ended: bool,
    pub alloc_source_talkbacks: bool, pub alloc_start_count: bool, pub alloc_end_count: bool, pub alloc_ended: bool,
}
#[derive(Clone, Copy)] pub struct Tok_sink_talkback {}
#[derive(Clone, Copy)] pub struct Tok_source_talkback { pub i: usize }
//@cell start_count: usize = atomic
//@cell end_count: usize = atomic
//@cell ended: bool = atomic

/// `Arc<Vec<ArcSwapOption<Source<T>>>>`: a fixed-length vector of cells
#[derive(Clone, Copy)] pub struct Cell_source_talkbacks { pub n: usize }
#[derive(Clone, Copy)] pub struct CellRef_source_talkbacks { pub k: usize }
impl Cell_source_talkbacks {
    pub fn alloc(h: &mut Heap, n: usize, v: Option<UpTb>) -> (r: Cell_source_talkbacks)
        ensures r.n == n, final(h).source_talkbacks@ =~= Seq::new(n as nat, |j: int| v), final(h).alloc_source_talkbacks,
            final(h).start_count == old(h).start_count, final(h).end_count == old(h).end_count, final(h).ended == old(h).ended,
            final(h).alloc_start_count == old(h).alloc_start_count, final(h).alloc_end_count == old(h).alloc_end_count, final(h).alloc_ended == old(h).alloc_ended,
    {
        let mut vv: Vec<Option<UpTb>> = Vec::new();
        let mut k: usize = 0;
        while k < n
            invariant k <= n, vv@ =~= Seq::new(k as nat, |j: int| v),
            decreases n - k,
        { vv.push(v); k = k + 1; }
        h.source_talkbacks = vv; h.alloc_source_talkbacks = true;
        Cell_source_talkbacks { n }
    }
    pub fn len(&self) -> (r: usize) ensures r == self.n { self.n }
    /// `v[k]`: indexing panics when out of bounds
    pub fn at(&self, k: usize) -> (r: CellRef_source_talkbacks) requires k < self.n ensures r.k == k { CellRef_source_talkbacks { k } }
}
impl CellRef_source_talkbacks {
    pub fn load(&self, h: &Heap) -> (r: Option<UpTb>) requires self.k < h.source_talkbacks@.len() ensures r == h.source_talkbacks@[self.k as int] { h.source_talkbacks[self.k] }
    pub fn store(&self, h: &mut Heap, v: Option<UpTb>)
        requires self.k < old(h).source_talkbacks@.len()
        ensures final(h).source_talkbacks@ == old(h).source_talkbacks@.update(self.k as int, v),
            final(h).start_count == old(h).start_count, final(h).end_count == old(h).end_count, final(h).ended == old(h).ended,
            final(h).alloc_source_talkbacks == old(h).alloc_source_talkbacks, final(h).alloc_start_count == old(h).alloc_start_count, final(h).alloc_end_count == old(h).alloc_end_count, final(h).alloc_ended == old(h).alloc_ended,
    { h.source_talkbacks.set(self.k, v); }
}

pub open spec fn cap_ok(c: Cap) -> bool { !c.pullable }
pub open spec fn g_init<T>(c: Cap) -> G<T> {
    G { dn: dn_init(), ups: Seq::new(c.n as nat, |j: int| up_init::<T>()), greeted: Seq::new(c.n as nat, |j: int| false), completed: Seq::new(c.n as nat, |j: int| false), turned: Seq::new(c.n as nat, |j: int| false), arr: Seq::empty() }
}
pub open spec fn none_alloc(h: Heap) -> bool { !h.alloc_source_talkbacks && !h.alloc_start_count && !h.alloc_end_count && !h.alloc_ended }
pub open spec fn all_alloc(h: Heap) -> bool { h.alloc_source_talkbacks && h.alloc_start_count && h.alloc_end_count && h.alloc_ended }
#[verifier::external_body] pub fn fresh_heap() -> (h: Heap) ensures none_alloc(h) { unimplemented!() }

pub open spec fn count_true(s: Seq<bool>) -> nat
    decreases s.len()
{
    if s.len() == 0 { 0 } else { count_true(s.drop_last()) + (if s.last() { 1nat } else { 0nat }) }
}
pub proof fn lemma_count_set(s: Seq<bool>, i: int)
    requires 0 <= i < s.len(), !s[i],
    ensures count_true(s.update(i, true)) == count_true(s) + 1,
    decreases s.len()
{
    if i == s.len() - 1 {
        assert(s.update(i, true).drop_last() =~= s.drop_last());
    } else {
        assert(s.update(i, true).drop_last() =~= s.drop_last().update(i, true));
        lemma_count_set(s.drop_last(), i);
    }
}
pub proof fn lemma_count_bounds(s: Seq<bool>)
    ensures
        count_true(s) <= s.len(),
        (forall|i: int| 0 <= i < s.len() && !(#[trigger] s[i]) ==> count_true(s) < s.len()),
        (forall|i: int| 0 <= i < s.len() && (#[trigger] s[i]) ==> count_true(s) >= 1),
    decreases s.len()
{
    if s.len() > 0 {
        let p = s.drop_last();
        lemma_count_bounds(p);
        assert forall|i: int| 0 <= i < s.len() && !(#[trigger] s[i]) implies count_true(s) < s.len() by {
            if i < p.len() { assert(p[i] == s[i]); }
        }
        assert forall|i: int| 0 <= i < s.len() && (#[trigger] s[i]) implies count_true(s) >= 1 by {
            if i < p.len() { assert(p[i] == s[i]); }
        }
    }
}
pub proof fn lemma_count_all(s: Seq<bool>)
    ensures (forall|i: int| 0 <= i < s.len() ==> #[trigger] s[i]) ==> count_true(s) == s.len(),
    decreases s.len()
{
    if s.len() > 0 {
        let p = s.drop_last();
        lemma_count_all(p);
        assert(forall|i: int| 0 <= i < p.len() ==> (#[trigger] p[i]) == s[i]);
    }
}
pub proof fn lemma_count_zero(n: nat)
    ensures count_true(Seq::new(n, |j: int| false)) == 0,
    decreases n
{
    if n > 0 {
        assert(Seq::new(n, |j: int| false).drop_last() =~= Seq::new((n - 1) as nat, |j: int| false));
        lemma_count_zero((n - 1) as nat);
    }
}

//@invpart safe @C17,C04 indices and counters stay in range; a live member's talkback is stored
//@invpart cnt @C08 the counters count the members that greeted / completed
//@invpart proto @C01 greeting, link phases, counters and the `ended` flag agree
//@invpart term @C02 at most one termination per link
//@invpart data @C08 the sink has received every datum of every member exactly once, in arrival order
//@invpart fwd @C05 a member's error reaches the sink unchanged
pub open spec fn inv_safe<T>(h: Heap, g: G<T>, c: Cap) -> bool {
    &&& cap_ok(c)
    &&& g.ups.len() == c.n && g.greeted.len() == c.n && g.completed.len() == c.n && g.turned.len() == c.n && h.source_talkbacks@.len() == c.n
    &&& (forall|i: int| 0 <= i < c.n && g.ups[i].phase == Up::Live ==> (#[trigger] h.source_talkbacks@[i]) == Some(UpTb { i: i as usize }))
    &&& (forall|i: int| 0 <= i < c.n && (#[trigger] h.source_talkbacks@[i]) is Some ==> h.source_talkbacks@[i] == Some(UpTb { i: i as usize }))
}
pub open spec fn inv_cnt<T>(h: Heap, g: G<T>, c: Cap) -> bool {
    &&& h.start_count == count_true(g.greeted)
    &&& h.end_count == count_true(g.completed)
    &&& (forall|i: int| #![trigger g.greeted[i]] #![trigger g.ups[i]] 0 <= i < c.n ==> g.greeted[i] == (up_greeted(g.ups[i].phase) && !g.turned[i]))
    &&& (forall|i: int| #![trigger g.turned[i]] #![trigger g.ups[i]] 0 <= i < c.n && g.turned[i] ==> g.ups[i].phase == Up::EndedByUs && h.source_talkbacks@[i] is None)
    &&& (forall|i: int| #![trigger g.completed[i]] #![trigger g.ups[i]] 0 <= i < c.n ==> g.completed[i] == (g.ups[i].phase == Up::EndedBySelf))
    // consequences of the counts that the handlers rely on (re-established from the count lemmas at handler entry)
    &&& h.start_count <= c.n && h.end_count <= c.n
    &&& (forall|i: int| 0 <= i < c.n && !(#[trigger] g.greeted[i]) ==> h.start_count < c.n)
    &&& (forall|i: int| 0 <= i < c.n && (#[trigger] g.greeted[i]) ==> h.start_count >= 1)
    &&& (forall|i: int| 0 <= i < c.n && !(#[trigger] g.completed[i]) ==> h.end_count < c.n)
}
pub open spec fn inv_proto<T>(h: Heap, g: G<T>, c: Cap) -> bool {
    &&& (g.dn.phase == Dn::NotGreeted <==> h.start_count == 0)
    &&& (g.dn.phase == Dn::NotGreeted ==> h.end_count == 0 && !h.ended)
    &&& (forall|i: int| 0 <= i < c.n && (#[trigger] h.source_talkbacks@[i]) is Some ==> g.ups[i].phase == Up::Live || g.ups[i].phase == Up::EndedByUs || g.ups[i].phase == Up::ErroredBySelf)
    &&& (g.dn.phase == Dn::Live ==> forall|i: int| 0 <= i < c.n && (#[trigger] h.source_talkbacks@[i]) is Some ==> g.ups[i].phase == Up::Live)
    &&& (dn_over(g.dn.phase) ==> h.ended || h.end_count == c.n)
    &&& (h.ended ==> dn_over(g.dn.phase))
    &&& (dn_over(g.dn.phase) ==> forall|i: int| 0 <= i < c.n ==> (#[trigger] g.ups[i]).phase != Up::Live)
    &&& (g.dn.phase == Dn::EndedByUs && g.dn.err is None ==> h.end_count == c.n)
}
pub open spec fn inv_term<T>(h: Heap, g: G<T>, c: Cap) -> bool {
    &&& g.dn.terms == (if g.dn.phase == Dn::EndedByUs { 1nat } else { 0nat })
    &&& (forall|j: int| 0 <= j < g.ups.len() ==> (#[trigger] g.ups[j]).terms == (if g.ups[j].phase == Up::EndedByUs { 1nat } else { 0nat }))
}
pub open spec fn inv_data<T>(h: Heap, g: G<T>, c: Cap) -> bool {
    g.dn.data =~= g.arr
}
pub open spec fn inv_fwd<T>(h: Heap, g: G<T>, c: Cap) -> bool {
    &&& (g.dn.phase != Dn::EndedByUs ==> g.dn.err is None)
    &&& (forall|j: int| 0 <= j < g.ups.len() && g.ups[j].phase == Up::ErroredBySelf ==> g.dn.phase == Dn::EndedByUs && g.dn.err == (#[trigger] g.ups[j]).err)
}
pub open spec fn ups_mono<T>(a: Seq<UpLink<T>>, b: Seq<UpLink<T>>) -> bool {
    &&& a.len() == b.len()
    &&& (forall|j: int| #![trigger a[j]] #![trigger b[j]] 0 <= j < a.len() ==> upl_mono(a[j], b[j]))
}
pub open spec fn mono<T>(a: Heap, ga: G<T>, b: Heap, gb: G<T>) -> bool {
    &&& dnl_mono(ga.dn, gb.dn)
    &&& ups_mono(ga.ups, gb.ups)
    &&& (a.ended ==> b.ended)
    &&& (all_alloc(a) ==> all_alloc(b))
}
pub open spec fn sink_rel<T>(a: Heap, ga: G<T>, b: Heap, gb: G<T>, c: Cap) -> bool { true && untouched_rel(ga, gb) }
pub open spec fn up_rel<T>(i: int, a: Heap, ga: G<T>, b: Heap, gb: G<T>, c: Cap) -> bool { (true ==> true) && untouched_rel(ga, gb) }
pub open spec fn sub_rel<T>(i: int, a: Heap, ga: G<T>, b: Heap, gb: G<T>, c: Cap) -> bool { untouched_rel(ga, gb) }
/// members that have not been subscribed yet stay untouched whatever the peers do
pub open spec fn untouched_rel<T>(ga: G<T>, gb: G<T>) -> bool {
    forall|j: int| #![trigger ga.ups[j]] #![trigger gb.ups[j]] 0 <= j < ga.ups.len() && j < gb.ups.len() && ga.ups[j] == up_init::<T>() ==> gb.ups[j] == up_init::<T>()
}
pub open spec fn sub_pre<T>(i: int, h: Heap, g: G<T>, c: Cap, m: Message<Never, Tok_source_talkback>) -> bool {
    true // (late greeters: other members may be pending)
}
pub open spec fn uptb_gate<T>(s: UpTb, k: int, h: Heap, g: G<T>, c: Cap, m: Message<Never, Never>) -> bool { true }
pub open spec fn upsrc_gate<T>(s: UpSrc, k: int, h: Heap, g: G<T>, c: Cap, m: Message<Never, Tok_source_talkback>) -> bool {
    if k == $GATE_SUB_INDEX { m is Handshake ==> m->Handshake_0.i == s.i } else { true }
}
pub open spec fn all_completed<T>(g: G<T>) -> bool { forall|j: int| 0 <= j < g.ups.len() ==> (#[trigger] g.ups[j]).phase == Up::EndedBySelf }
pub open spec fn none_live<T>(g: G<T>) -> bool { forall|j: int| 0 <= j < g.ups.len() ==> (#[trigger] g.ups[j]).phase != Up::Live }

//@include env_dn.rs OP=merge TP=T G=G<T> GNAME=G HEAP=Heap O=T ORPHAN="none_live(g)" QUIET=true LITE=false SINKGATE="k == $GATE_MERGE_DONE ==> (m is Terminate ==> all_completed(g))"
//@include env_upn.rs OP=merge TP=T G=G<T> GNAME=G HEAP=Heap I=T LITE=false LATE=true

#[verifier::exec_allows_no_decreases_clause]
#[verifier::loop_isolation(false)]
pub fn merge__subscribe<T>(h: &mut Heap, g: &mut Ghost<G<T>>, c: &Cap, message: Message<Never, SinkH>)
    requires
        message is Handshake, old(g)@ == g_init::<T>(*c), cap_ok(*c),
        none_alloc(*old(h)),
    ensures
        INV!(*final(h), final(g)@, *c),
        true,
        all_alloc(*final(h)), /* @C13 every cell is allocated per subscription */
{
    let sources = Sources { n: c.n };
    proof { lemma_count_zero(c.n as nat); }
    BODY!("merge");
}
INVARIANT!("merge", 0) {
    invariant
        INV!(*h, g@, *c),
        true, all_alloc(*h), n == c.n, sources.n == c.n, source_talkbacks.n == c.n,
        forall|j: int| i <= j < c.n ==> (#[trigger] g@.ups[j]) == up_init::<T>(),
}

//@split Pull Terminate Error
#[verifier::exec_allows_no_decreases_clause]
#[verifier::loop_isolation(false)]
pub fn merge__sink_talkback<T>(h: &mut Heap, g: &mut Ghost<G<T>>, c: &Cap, message: Message<Never, Never>)
    requires
        INV!(*old(h), old(g)@, *c),
        true,
        old(g)@.dn.phase == Dn::Live,
        message is Pull || message is Terminate || message is Error,
    ensures
        INV!(*final(h), final(g)@, *c),
        mono(*old(h), old(g)@, *final(h), final(g)@), /* @C02 phases only move forward */
        sink_rel(*old(h), old(g)@, *final(h), final(g)@, *c),
        (message is Terminate || message is Error) ==> none_live(final(g)@), /* @C04 disposal reaches every member that is still subscribed */
        (message is Terminate || message is Error) ==> final(g)@.dn.phase == Dn::EndedBySink, /* @C03 no termination back to a sink that disposed */
        message is Pull ==> (forall|j: int| 0 <= j < c.n && old(g)@.ups[j].phase == Up::Live && (#[trigger] final(g)@.ups[j]).phase == Up::Live ==> final(g)@.ups[j].pulls > old(g)@.ups[j].pulls), /* @C08 a sink Pull reaches every member that has greeted and not completed */
        message is Error ==> (forall|j: int| 0 <= j < c.n && old(g)@.ups[j].phase == Up::Live ==> (#[trigger] final(g)@.ups[j]).term_err == Some(message->Error_0)), /* @C04 a sink Error goes upstream as that Error */
{
    let source_talkbacks = Cell_source_talkbacks { n: c.n }; let ended = Cell_ended {};
    let ghost h0 = *h; let ghost g0 = g@;
    proof { g@ = G { dn: dn_recv(g@.dn, message), ..g@ }; }
    BODY!("sink_talkback");
}
INVARIANT!("sink_talkback", 0) {
    invariant
        __it0.n == c.n,
        mono(h0, g0, *h, g@), true, untouched_rel(g0, g@),
        message is Pull ==> INV!(*h, g@, *c),
        message is Pull ==> (forall|j: int| 0 <= j < __k0 && g0.ups[j].phase == Up::Live && (#[trigger] g@.ups[j]).phase == Up::Live ==> g@.ups[j].pulls > g0.ups[j].pulls),
        !(message is Pull) ==> disposing(*h, g@, *c, __k0 as int, -1),
        message is Error ==> (forall|j: int| 0 <= j < __k0 && g0.ups[j].phase == Up::Live ==> (#[trigger] g@.ups[j]).term_err == Some(message->Error_0)),
        !(message is Pull) ==> (forall|j: int| __k0 <= j < c.n ==> (#[trigger] g@.ups[j]) == g0.ups[j]),
        !(message is Pull) ==> g@.dn == dn_recv(g0.dn, message),
}
/// loop state while every member still subscribed is being told to stop: members below the cursor
/// (other than the failed one, `skip`) are no longer live; the stored talkbacks above it are still exact
pub open spec fn disposing<T>(h: Heap, g: G<T>, c: Cap, k: int, skip: int) -> bool {
    &&& inv_safe(h, g, c) && inv_cnt(h, g, c) && inv_term(h, g, c) && inv_data(h, g, c)
    &&& h.ended && h.start_count != 0
    &&& (forall|j: int| 0 <= j < k && j != skip ==> (#[trigger] g.ups[j]).phase != Up::Live)
    &&& (forall|j: int| 0 <= j < c.n && j != skip ==> (#[trigger] g.ups[j]).phase != Up::ErroredBySelf)
    &&& g.dn.err is None
    &&& (forall|j: int| 0 <= j < c.n && (#[trigger] h.source_talkbacks@[j]) is Some ==> g.ups[j].phase == Up::Live || g.ups[j].phase == Up::EndedByUs || g.ups[j].phase == Up::ErroredBySelf)
    &&& (forall|j: int| k <= j < c.n && j != skip && (#[trigger] h.source_talkbacks@[j]) is Some ==> g.ups[j].phase == Up::Live)
}

//@split Handshake Data Error Terminate
#[verifier::exec_allows_no_decreases_clause]
#[verifier::loop_isolation(false)]
pub fn merge__source_talkback<T>(h: &mut Heap, g: &mut Ghost<G<T>>, c: &Cap, i: usize, message: Message<T, UpTb>)
    requires
        INV!(*old(h), old(g)@, *c),
        i < c.n,
        !(message is Pull),
        message is Handshake ==> old(g)@.ups[i as int].phase == Up::Subscribing && message->Handshake_0 == (UpTb { i: i }) && sub_pre(i as int, *old(h), old(g)@, *c, Message::Handshake(Tok_source_talkback { i: i })),
        !(message is Handshake) ==> old(g)@.ups[i as int].phase == Up::Live && true,
    ensures
        INV!(*final(h), final(g)@, *c),
        mono(*old(h), old(g)@, *final(h), final(g)@), /* @C02 phases only move forward */
        true, untouched_rel(set_up(old(g)@, i as int, up_recv(old(g)@.ups[i as int], message)), final(g)@),
        message is Handshake ==> final(g)@.dn.phase != Dn::NotGreeted, /* @C08 the sink is greeted when the first member greets */
        message is Error && old(g)@.dn.phase == Dn::Live ==> final(g)@.dn.phase == Dn::EndedByUs && final(g)@.dn.err == Some(message->Error_0) && none_live(final(g)@), /* @C05 a member error reaches the sink once, unchanged; siblings are disposed */
        message is Terminate && all_completed(final(g)@) && old(g)@.dn.phase == Dn::Live ==> final(g)@.dn.phase != Dn::Live, /* @C08 the sink completes when the last member has completed */
{
    let n = c.n; let sink = SinkH {}; let talkback = Tok_sink_talkback {};
    let source_talkbacks = Cell_source_talkbacks { n: c.n }; let start_count = Cell_start_count {}; let end_count = Cell_end_count {}; let ended = Cell_ended {};
    proof {
        lemma_count_bounds(g@.greeted); lemma_count_bounds(g@.completed);
        if message is Data { g@ = G { arr: g@.arr.push(message->Data_0), ..g@ }; }
        if message is Handshake && !h.ended { lemma_count_set(g@.greeted, i as int); g@ = G { greeted: g@.greeted.update(i as int, true), ..g@ }; }
        if message is Handshake && h.ended { g@ = G { turned: g@.turned.update(i as int, true), ..g@ }; }
        if message is Terminate { lemma_count_set(g@.completed, i as int); g@ = G { completed: g@.completed.update(i as int, true), ..g@ }; }
        g@ = set_up(g@, i as int, up_recv(g@.ups[i as int], message));
        lemma_count_bounds(g@.greeted); lemma_count_bounds(g@.completed);
        assert(forall|j: int| #![trigger g@.completed[j]] #![trigger g@.ups[j]] 0 <= j < c.n ==> g@.completed[j] == (g@.ups[j].phase == Up::EndedBySelf));
        assert(forall|j: int| #![trigger g@.greeted[j]] #![trigger g@.ups[j]] 0 <= j < c.n ==> g@.greeted[j] == (up_greeted(g@.ups[j].phase) && !g@.turned[j]));
        lemma_count_all(g@.completed);
    }
    let ghost g1 = g@;
    BODY!("source_talkback");
}
INVARIANT!("source_talkback", 0) {
    invariant
        n == c.n, source_talkbacks.n == c.n, i < c.n,
        mono(*old(h), old(g)@, *h, g@), true, untouched_rel(g1, g@),
        disposing(*h, g@, *c, j as int, i as int),
        g@.dn == g1.dn, g@.dn.phase == Dn::Live, g@.ups[i as int] == g1.ups[i as int],
}

/// Every history of one subscription with conformant peers is an execution of `world`.
#[verifier::exec_allows_no_decreases_clause]
pub fn world<T>(c: &Cap)
    requires cap_ok(*c)
{
    let mut h: Heap = fresh_heap();
    let mut g: Ghost<G<T>> = Ghost(g_init(*c));
    merge__subscribe(&mut h, &mut g, c, Message::Handshake(SinkH {}));
    loop
        invariant
            INV!(h, g@, *c),
            true,
    {
        if nondet_bool() {
            let j = nondet_usize();
            if j < c.n {
                let ghost pending = g@.ups[j as int].phase == Up::Subscribing;
                if ghost_test(Ghost(pending)) {
                    merge__source_talkback(&mut h, &mut g, c, j, Message::Handshake(UpTb { i: j }));   // a late greeting
                }
                up_events_of(j, &mut h, &mut g, c);
            }
        } else if ghost_test(Ghost(g@.dn.phase == Dn::Live)) {
            if nondet_bool() { merge__sink_talkback(&mut h, &mut g, c, Message::Pull); }
            else if nondet_bool() { merge__sink_talkback(&mut h, &mut g, c, Message::Terminate); }
            else { merge__sink_talkback(&mut h, &mut g, c, Message::Error(nondet_u64())); }
        }
    }
}
