// ===================================================================================================
// concat!(members..): contract template body.  Handler bodies are extracted from /repo/src/concat.rs:
// the subscription closure, the sink talkback, the `next` closure and the member handler.
// Text parameters: $NCOND, the member-count case this unit covers; $SINKTB, the closure that is the sink's
// talkback in that case (`sink_talkback`, or `empty_talkback` when there are no members); $SKIP, the other one.
// ===================================================================================================
//@ignore ctor = let sources = Vec::from(sources).into_iter().map(|s| s.into()).collect(); Tok_concat {}
//@skip $SKIP
//@token empty_talkback => Tok_sink_talkback {}
//@heap Heap
//@tp T
//@celltp
//@extratag @C09 a member is subscribed only while no other subscription is in progress

pub struct G<T> { pub dn: DnLink<T>, pub ups: Seq<UpLink<T>>, pub mdata: Seq<Seq<T>>, pub cat: Seq<T> }
pub struct Cap { pub n: usize, pub pullable: bool }
pub struct Heap {
    pub i: usize, pub source_talkback: Option<UpTb>, pub got_pull: bool, pub next_ref: Option<Tok_next>, pub disposed: bool, pub ended: bool,
    pub alloc_i: bool, pub alloc_source_talkback: bool, pub alloc_got_pull: bool, pub alloc_next_ref: bool, pub alloc_disposed: bool, pub alloc_ended: bool,
}
#[derive(Clone, Copy)] pub struct Tok_sink_talkback {}
#[derive(Clone, Copy)] pub struct Tok_source_talkback {}
#[derive(Clone, Copy)] pub struct Tok_next {}
//@cell i: usize = atomic
//@cell source_talkback: Option<UpTb> = swap_option
//@cell got_pull: bool = atomic
//@cell next_ref: Option<Tok_next> = swap_option
//@cell disposed: bool = atomic
//@cell ended: bool = atomic

pub open spec fn cap_ok(c: Cap) -> bool { $NCOND }
pub open spec fn g_init<T>(c: Cap) -> G<T> { G { dn: dn_init(), ups: Seq::new(c.n as nat, |j: int| up_init::<T>()), mdata: Seq::new(c.n as nat, |j: int| Seq::<T>::empty()), cat: Seq::empty() } }
pub open spec fn none_alloc(h: Heap) -> bool { !h.alloc_i && !h.alloc_source_talkback && !h.alloc_got_pull && !h.alloc_next_ref && !h.alloc_disposed && !h.alloc_ended }
/// every cell the subscription uses is its own: the four cells of the member machinery, or (no members) the disposal flag
pub open spec fn all_alloc(h: Heap) -> bool { (h.alloc_i && h.alloc_source_talkback && h.alloc_got_pull && h.alloc_next_ref && h.alloc_ended) || h.alloc_disposed }
#[verifier::external_body] pub fn fresh_heap() -> (h: Heap) ensures none_alloc(h) { unimplemented!() }

/// concatenation of the members' data in member order
pub open spec fn flat<T>(md: Seq<Seq<T>>) -> Seq<T>
    decreases md.len()
{
    if md.len() == 0 { Seq::empty() } else { flat(md.drop_last()) + md.last() }
}
/// appending to member k's data appends to the concatenation when every later member is still empty
pub proof fn lemma_flat_push<T>(md: Seq<Seq<T>>, k: int, d: T)
    requires
        0 <= k < md.len(),
        forall|j: int| k < j < md.len() ==> (#[trigger] md[j]).len() == 0,
    ensures
        flat(md.update(k, md[k].push(d))) =~= flat(md).push(d),
    decreases md.len()
{
    let l = md[k].push(d);
    if k == md.len() - 1 {
        assert(md.update(k, l).drop_last() =~= md.drop_last());
    } else {
        assert(md.update(k, l).drop_last() =~= md.drop_last().update(k, l));
        lemma_flat_push(md.drop_last(), k, d);
        assert(md.update(k, l).last() == md.last());
        assert(md.last() =~= Seq::empty());
    }
}

pub proof fn lemma_flat_empty<T>(md: Seq<Seq<T>>)
    requires forall|j: int| 0 <= j < md.len() ==> (#[trigger] md[j]).len() == 0,
    ensures flat(md) =~= Seq::<T>::empty(),
    decreases md.len()
{
    if md.len() > 0 { lemma_flat_empty(md.drop_last()); }
}

//@invpart safe @C17,C04 indices stay in range; handles are stored before they are used
//@invpart seq @C09 members run strictly one after another: earlier ones completed, later ones untouched
//@invpart proto @C01 greeting, link phases and the member cursor agree
//@invpart term @C02 at most one termination per link
//@invpart data @C09,C06 the sink has received the members' data in member order
//@invpart fwd @C05 a member's error reaches the sink unchanged
//@invpart carry @C09,C14,C06 the flag records that the sink has pulled, so that an outstanding Pull is re-issued at every member boundary
//@invpart pull @C14,C06 demand conservation: the outstanding Pull is carried to the current member
pub open spec fn cur<T>(h: Heap, g: G<T>) -> UpLink<T> { g.ups[h.i as int] }
pub open spec fn inv_safe<T>(h: Heap, g: G<T>, c: Cap) -> bool {
    &&& cap_ok(c)
    &&& g.ups.len() == c.n
    &&& (c.n > 0 ==> h.i <= c.n)
    &&& (c.n > 0 ==> h.next_ref is Some)
    &&& (h.i < c.n && cur(h, g).phase == Up::Live ==> h.source_talkback == Some(UpTb { i: h.i }))
    &&& (c.n > 0 && h.source_talkback is Some ==> h.i < c.n && h.source_talkback == Some(UpTb { i: h.i }) && (cur(h, g).phase == Up::Live || cur(h, g).phase == Up::EndedByUs || cur(h, g).phase == Up::ErroredBySelf))
}
pub open spec fn inv_seq<T>(h: Heap, g: G<T>, c: Cap) -> bool {
    &&& (forall|j: int| 0 <= j < h.i && j < g.ups.len() ==> (#[trigger] g.ups[j]).phase == Up::EndedBySelf)
    &&& (forall|j: int| h.i < j < g.ups.len() ==> (#[trigger] g.ups[j]) == up_init::<T>())
    &&& (h.i < c.n && cur(h, g).phase == Up::Subscribing ==> cur(h, g) == (UpLink { phase: Up::Subscribing, ..up_init::<T>() }))
}
pub open spec fn inv_proto<T>(h: Heap, g: G<T>, c: Cap) -> bool {
    &&& (h.i < c.n ==> cur(h, g).phase != Up::Idle && cur(h, g).phase != Up::EndedBySelf)
    &&& (c.n > 0 ==> (g.dn.phase == Dn::NotGreeted <==> h.i == 0 && h.i < c.n && cur(h, g).phase == Up::Subscribing))
    &&& (c.n > 0 ==> (g.dn.phase == Dn::Live ==> h.i < c.n && (cur(h, g).phase == Up::Live || (cur(h, g).phase == Up::Subscribing && h.i > 0))))
    &&& (c.n > 0 ==> (g.dn.phase == Dn::EndedByUs <==> h.i == c.n || (h.i < c.n && cur(h, g).phase == Up::ErroredBySelf)))
    &&& (c.n > 0 ==> (g.dn.phase == Dn::EndedBySink ==> h.i < c.n && (cur(h, g).phase == Up::EndedByUs || cur(h, g).phase == Up::Subscribing)))
    &&& (c.n > 0 && h.i < c.n && cur(h, g).phase == Up::EndedByUs ==> g.dn.phase == Dn::EndedBySink)
    &&& (c.n > 0 ==> (h.ended <==> g.dn.phase == Dn::EndedBySink))
    &&& (g.dn.phase == Dn::NotGreeted ==> g.dn.pulls == 0 && g.dn.data.len() == 0)
    // no members: the sink is greeted and completed inside the subscribing call, unless it disposes from inside its greeting
    &&& (c.n == 0 ==> g.dn.phase != Dn::NotGreeted && (g.dn.phase == Dn::EndedBySink <==> h.disposed) && g.dn.data.len() == 0)
}
pub open spec fn inv_carry<T>(h: Heap, g: G<T>, c: Cap) -> bool {
    c.n > 0 ==> (h.got_pull <==> g.dn.pulls > 0)
}
pub open spec fn inv_term<T>(h: Heap, g: G<T>, c: Cap) -> bool {
    &&& g.dn.terms == (if g.dn.phase == Dn::EndedByUs { 1nat } else { 0nat })
    &&& (forall|j: int| 0 <= j < g.ups.len() ==> (#[trigger] g.ups[j]).terms == (if g.ups[j].phase == Up::EndedByUs { 1nat } else { 0nat }))
}
pub open spec fn inv_data<T>(h: Heap, g: G<T>, c: Cap) -> bool {
    &&& g.dn.data =~= g.cat
    &&& g.cat =~= flat(g.mdata)
    &&& g.mdata.len() == g.ups.len()
    &&& (forall|j: int| 0 <= j < g.ups.len() ==> (#[trigger] g.mdata[j]) == g.ups[j].data)
}
pub open spec fn inv_fwd<T>(h: Heap, g: G<T>, c: Cap) -> bool {
    &&& (h.i < c.n && cur(h, g).phase == Up::ErroredBySelf ==> g.dn.err == cur(h, g).err)
    &&& (h.i == c.n ==> g.dn.err is None)
    &&& (g.dn.phase != Dn::EndedByUs ==> g.dn.err is None)
    &&& (g.dn.phase != Dn::EndedBySink ==> g.dn.sink_err is None)
    // (a member that greets only after the sink has gone is told to stop with a plain Terminate)
    &&& (h.i < c.n && cur(h, g).phase == Up::EndedByUs ==> cur(h, g).term_err == g.dn.sink_err || cur(h, g).term_err is None)
    &&& (forall|j: int| 0 <= j < g.ups.len() && g.ups[j].phase != Up::EndedByUs ==> (#[trigger] g.ups[j]).term_err is None)
}
pub open spec fn inv_pull<T>(h: Heap, g: G<T>, c: Cap) -> bool {
    c.pullable ==> {
        &&& g.dn.data.len() <= g.dn.pulls
        &&& (h.i < c.n ==> cur(h, g).data.len() <= cur(h, g).pulls)
        &&& (h.i < c.n && cur(h, g).phase == Up::Live ==> g.dn.pulls - g.dn.data.len() == cur(h, g).pulls - cur(h, g).data.len())
        &&& g.dn.pulls <= g.dn.data.len() + 1
        &&& (h.i < c.n && h.i > 0 && cur(h, g).phase == Up::Subscribing ==> g.dn.pulls == g.dn.data.len() + 1)
    }
}
pub open spec fn ups_mono<T>(a: Seq<UpLink<T>>, b: Seq<UpLink<T>>) -> bool {
    &&& a.len() == b.len()
    &&& (forall|j: int| #![trigger a[j]] #![trigger b[j]] 0 <= j < a.len() ==> upl_mono(a[j], b[j]))
}
pub open spec fn mono<T>(a: Heap, ga: G<T>, b: Heap, gb: G<T>) -> bool {
    &&& dnl_mono(ga.dn, gb.dn)
    &&& ups_mono(ga.ups, gb.ups)
    &&& a.i <= b.i
    &&& (all_alloc(a) ==> all_alloc(b))
}
/// `quiet` (no member between subscribed and greeted) is an invariant only when members greet inside the subscribing call
pub open spec fn qt<T>(g: G<T>) -> bool { $LATE || quiet(g) }
pub open spec fn sink_rel<T>(a: Heap, ga: G<T>, b: Heap, gb: G<T>, c: Cap) -> bool { qt(gb) && (c.n == 0 ==> gb.dn.terms == ga.dn.terms) }
pub open spec fn up_rel<T>(i: int, a: Heap, ga: G<T>, b: Heap, gb: G<T>, c: Cap) -> bool { qt(ga) ==> qt(gb) }
pub open spec fn sub_rel<T>(i: int, a: Heap, ga: G<T>, b: Heap, gb: G<T>, c: Cap) -> bool { true }
pub open spec fn sub_pre<T>(i: int, h: Heap, g: G<T>, c: Cap, m: Message<Never, Tok_source_talkback>) -> bool {
    forall|j: int| 0 <= j < g.ups.len() && j != i ==> (#[trigger] g.ups[j]).phase != Up::Subscribing
}
pub open spec fn uptb_gate<T>(s: UpTb, k: int, h: Heap, g: G<T>, c: Cap, m: Message<Never, Never>) -> bool { true }
pub open spec fn upsrc_gate<T>(s: UpSrc, k: int, h: Heap, g: G<T>, c: Cap, m: Message<Never, Tok_source_talkback>) -> bool {
    if k == $GATE_LAZY { forall|j: int| 0 <= j < s.i && j < g.ups.len() ==> (#[trigger] g.ups[j]).phase == Up::EndedBySelf } else { true }
}

//@include env_dn.rs OP=concat TP=T G=G<T> GNAME=G HEAP=Heap O=T ORPHAN="forall|j: int| 0 <= j < g.ups.len() ==> (#[trigger] g.ups[j]).phase != Up::Live" QUIET="qt(g)" LITE=false SINKGATE=true
//@include env_upn.rs OP=concat TP=T G=G<T> GNAME=G HEAP=Heap I=T LITE=false LATE=$LATE

/// the state in which `next` is entered: the cursor points at a member that is not subscribed yet
pub open spec fn pre_next<T>(h: Heap, g: G<T>, c: Cap) -> bool {
    &&& c.n > 0 && g.ups.len() == c.n && h.i <= c.n && qt(g)
    &&& inv_seq(h, g, c) && inv_term(h, g, c) && inv_data(h, g, c)
    &&& (h.i < c.n ==> cur(h, g) == up_init::<T>())
    &&& (h.i == 0 ==> g.dn == dn_init::<T>() && !h.got_pull && h.source_talkback is None && !h.ended)
    &&& (h.i > 0 ==> g.dn.phase == Dn::Live && h.next_ref is Some && h.source_talkback is None && !h.ended && g.dn.err is None && g.dn.sink_err is None)
    &&& (h.got_pull <==> g.dn.pulls > 0)
    &&& (forall|j: int| 0 <= j < g.ups.len() && g.ups[j].phase != Up::EndedByUs ==> (#[trigger] g.ups[j]).term_err is None)
    &&& (c.pullable ==> g.dn.data.len() <= g.dn.pulls && g.dn.pulls <= g.dn.data.len() + 1 && (h.i > 0 ==> g.dn.pulls == g.dn.data.len() + 1))
}
impl Tok_next {
    #[verifier::exec_allows_no_decreases_clause]
    pub fn call<T>(&self, h: &mut Heap, g: &mut Ghost<G<T>>, c: &Cap)
        requires
            pre_next(*old(h), old(g)@, *c), cap_ok(*c),
            old(h).i == 0 ==> old(h).next_ref is Some,
        ensures
            INV!(*final(h), final(g)@, *c),
            mono(*old(h), old(g)@, *final(h), final(g)@),
            qt(final(g)@),
    {
        concat__next(h, g, c)
    }
}

#[verifier::exec_allows_no_decreases_clause]
pub fn concat__subscribe<T>(h: &mut Heap, g: &mut Ghost<G<T>>, c: &Cap, message: Message<Never, SinkH>)
    requires
        message is Handshake, old(g)@ == g_init::<T>(*c), cap_ok(*c),
        none_alloc(*old(h)),
    ensures
        INV!(*final(h), final(g)@, *c),
        qt(final(g)@),
        all_alloc(*final(h)), /* @C13 every cell is allocated per subscription */
{
    let sources = Sources { n: c.n };
    proof { lemma_flat_empty::<T>(g@.mdata); }
    BODY!("concat");
}

#[verifier::exec_allows_no_decreases_clause]
pub fn concat__next<T>(h: &mut Heap, g: &mut Ghost<G<T>>, c: &Cap)
    requires
        pre_next(*old(h), old(g)@, *c), cap_ok(*c),
        old(h).i == 0 ==> old(h).next_ref is Some,
    ensures
        INV!(*final(h), final(g)@, *c),
        mono(*old(h), old(g)@, *final(h), final(g)@), /* @C02 phases only move forward */
        qt(final(g)@),
{
    let sources = Sources { n: c.n }; let n = c.n; let sink = SinkH {};
    let i = Cell_i {}; let source_talkback = Cell_source_talkback {}; let got_pull = Cell_got_pull {}; let ended = Cell_ended {}; let talkback = Tok_sink_talkback {}; let next_ref = Cell_next_ref {};
    BODY!("next");
}

#[verifier::exec_allows_no_decreases_clause]
pub fn concat__source_talkback<T>(h: &mut Heap, g: &mut Ghost<G<T>>, c: &Cap, who: usize, message: Message<T, UpTb>)
    requires
        INV!(*old(h), old(g)@, *c),
        who < c.n,
        !(message is Pull),
        message is Handshake ==> old(g)@.ups[who as int].phase == Up::Subscribing && message->Handshake_0 == (UpTb { i: who }) && sub_pre(who as int, *old(h), old(g)@, *c, Message::Handshake(Tok_source_talkback {})),
        !(message is Handshake) ==> old(g)@.ups[who as int].phase == Up::Live && qt(old(g)@),
        !(message is Handshake) && c.pullable ==> old(g)@.ups[who as int].data.len() < old(g)@.ups[who as int].pulls, // profile P: a pullable member answers an outstanding Pull only
    ensures
        INV!(*final(h), final(g)@, *c),
        mono(*old(h), old(g)@, *final(h), final(g)@), /* @C02 phases only move forward */
        qt(final(g)@),
        message is Error ==> final(g)@.dn.phase == Dn::EndedByUs && final(g)@.dn.err == Some(message->Error_0), /* @C05 error forwarded once, unchanged */
        message is Handshake && who > 0 && old(h).got_pull && !old(h).ended ==> final(g)@.ups[who as int].pulls >= 1, /* @C09 an outstanding Pull is re-issued to the next member */
{
    let n = c.n; let sink = SinkH {};
    let i = Cell_i {}; let source_talkback = Cell_source_talkback {}; let got_pull = Cell_got_pull {}; let ended = Cell_ended {}; let talkback = Tok_sink_talkback {}; let next_ref = Cell_next_ref {};
    proof {
        if message is Data {
            lemma_flat_push(g@.mdata, who as int, message->Data_0);
            g@ = G { cat: g@.cat.push(message->Data_0), mdata: g@.mdata.update(who as int, g@.mdata[who as int].push(message->Data_0)), ..g@ };
        }
        g@ = set_up(g@, who as int, up_recv(g@.ups[who as int], message));
    }
    BODY!("source_talkback");
}

#[verifier::exec_allows_no_decreases_clause]
pub fn concat__sink_talkback<T>(h: &mut Heap, g: &mut Ghost<G<T>>, c: &Cap, message: Message<Never, Never>)
    requires
        INV!(*old(h), old(g)@, *c),
        qt(old(g)@),
        old(g)@.dn.phase == Dn::Live,
        message is Pull || message is Terminate || message is Error,
        message is Pull && c.pullable ==> old(g)@.dn.pulls <= old(g)@.dn.data.len(), // profile P
    ensures
        INV!(*final(h), final(g)@, *c),
        mono(*old(h), old(g)@, *final(h), final(g)@), /* @C02 phases only move forward */
        sink_rel(*old(h), old(g)@, *final(h), final(g)@, *c),
        (message is Terminate || message is Error) ==> (forall|j: int| 0 <= j < final(g)@.ups.len() ==> (#[trigger] final(g)@.ups[j]).phase != Up::Live), /* @C04 disposal reaches the upstream */
        (message is Terminate || message is Error) ==> final(g)@.dn.phase == Dn::EndedBySink, /* @C03 no termination back to a sink that disposed */
        message is Error && c.n > 0 && old(h).i < c.n && old(g)@.ups[old(h).i as int].phase == Up::Live ==> final(h).i < c.n && final(g)@.ups[final(h).i as int].term_err == Some(message->Error_0), /* @C04 a sink Error goes upstream as that Error */
{
    let source_talkback = Cell_source_talkback {}; let got_pull = Cell_got_pull {}; let disposed = Cell_disposed {}; let ended = Cell_ended {};
    proof { g@ = G { dn: dn_recv(g@.dn, message), ..g@ }; }
    BODY!("$SINKTB");
}

/// Every history of one subscription with conformant peers is an execution of `world`.
#[verifier::exec_allows_no_decreases_clause]
pub fn world<T>(c: &Cap)
    requires cap_ok(*c)
{
    let mut h: Heap = fresh_heap();
    let mut g: Ghost<G<T>> = Ghost(g_init(*c));
    concat__subscribe(&mut h, &mut g, c, Message::Handshake(SinkH {}));
    loop
        invariant
            INV!(h, g@, *c),
            cap_ok(*c), qt(g@),
    {
        if nondet_bool() {
            let j = nondet_usize();
            if j < c.n {
                let ghost pending = $LATE && g@.ups[j as int].phase == Up::Subscribing;
                if ghost_test(Ghost(pending)) {
                    concat__source_talkback(&mut h, &mut g, c, j, Message::Handshake(UpTb { i: j }));   // a late greeting
                }
                up_events_of(j, &mut h, &mut g, c);
            }
        } else if ghost_test(Ghost(g@.dn.phase == Dn::Live)) {
            if nondet_bool() {
                if !c.pullable || ghost_test(Ghost(g@.dn.pulls <= g@.dn.data.len())) {
                    concat__sink_talkback(&mut h, &mut g, c, Message::Pull);
                }
            }
            else if nondet_bool() { concat__sink_talkback(&mut h, &mut g, c, Message::Terminate); }
            else { concat__sink_talkback(&mut h, &mut g, c, Message::Error(nondet_u64())); }
        }
    }
}
