// ===================================================================================================
// take(max): contract template.  Bodies of the three handler closures are extracted from
// /repo/src/take.rs on every run (BODY! holes).  Everything else here is specification.
// ===================================================================================================
//@op take
//@properties C01 C02 C03 C04 C05 C06 C07 C13 C14 C17 C20
//@ignore ctor = Tok_apply {}
//@ignore apply = let source = source.into(); Tok_take {}

pub struct G<T> { pub dn: DnLink<T>, pub up: UpLink<T> }
pub struct Cap { pub max: usize, pub pullable: bool }
pub struct Heap { pub taken: usize, pub end: bool, pub source_talkback: Option<UpTb>, pub alloc_taken: bool, pub alloc_end: bool, pub alloc_source_talkback: bool }
#[derive(Clone, Copy)] pub struct Tok_sink_talkback {}
#[derive(Clone, Copy)] pub struct Tok_source_talkback {}
//@cell taken: usize = atomic
//@cell end: bool = atomic
//@cell source_talkback: Option<UpTb> = swap_option

pub open spec fn cap_ok(c: Cap) -> bool { true }
pub open spec fn g_init<T>() -> G<T> { G { dn: dn_init(), up: up_init() } }
#[verifier::external_body] pub fn fresh_heap() -> (h: Heap) ensures !h.alloc_taken && !h.alloc_end && !h.alloc_source_talkback { unimplemented!() }

//@invpart safe @C17,C04 handles are stored before they are used; counters stay in range
//@invpart proto @C01 greeting, phases and flags agree
//@invpart term @C02 at most one termination per link
//@invpart data @C07,C06 take: output is the n-prefix of the input
//@invpart fwd @C05 upstream end / error reaches the sink
//@invpart pull @C14,C06 demand conservation: every sink Pull is carried upstream while items remain
pub open spec fn inv_safe<T>(h: Heap, g: G<T>, c: Cap) -> bool {
    &&& (up_greeted(g.up.phase) ==> h.source_talkback is Some)
}
pub open spec fn inv_proto<T>(h: Heap, g: G<T>, c: Cap) -> bool {
    &&& (g.up.phase == Up::Live ==> g.dn.phase == Dn::Live)
    &&& (g.up.phase == Up::Subscribing ==> g.dn.phase == Dn::NotGreeted && h.taken == 0 && !h.end)
    &&& (g.dn.phase == Dn::Live && !h.end ==> g.up.phase == Up::Live)
    &&& (g.dn.phase == Dn::EndedBySink ==> h.end)
    &&& (h.end ==> g.dn.phase != Dn::Live)
    &&& (g.dn.phase == Dn::NotGreeted ==> g.dn.data.len() == 0 && (g.up.phase == Up::Idle || g.up.phase == Up::Subscribing))
    &&& (g.up.phase == Up::Idle ==> g.dn.phase == Dn::NotGreeted)
}
pub open spec fn inv_term<T>(h: Heap, g: G<T>, c: Cap) -> bool {
    &&& g.dn.terms == (if g.dn.phase == Dn::EndedByUs { 1nat } else { 0nat })
    &&& g.up.terms == (if g.up.phase == Up::EndedByUs { 1nat } else { 0nat })
}
pub open spec fn inv_data<T>(h: Heap, g: G<T>, c: Cap) -> bool {
    &&& h.taken <= c.max
    &&& g.dn.data.len() == h.taken
    &&& g.dn.data =~= g.up.data.take(h.taken as int)
    &&& g.up.data.len() >= h.taken
    &&& (h.taken < c.max ==> g.up.data.len() == h.taken)
}
pub open spec fn inv_pull<T>(h: Heap, g: G<T>, c: Cap) -> bool {
    c.pullable ==> {
        &&& g.up.data.len() <= g.up.pulls
        &&& g.up.pulls <= g.dn.pulls
        &&& (h.taken < c.max ==> g.up.pulls == g.dn.pulls)
    }
}
pub open spec fn inv_fwd<T>(h: Heap, g: G<T>, c: Cap) -> bool {
    &&& (g.up.phase == Up::ErroredBySelf ==> g.dn.phase == Dn::EndedByUs && (g.dn.err == g.up.err || g.dn.data.len() == c.max))
    &&& (g.up.phase == Up::EndedBySelf ==> g.dn.phase == Dn::EndedByUs)
}
pub open spec fn mono<T>(a: Heap, ga: G<T>, b: Heap, gb: G<T>) -> bool {
    &&& b.taken >= a.taken
    &&& (a.end ==> b.end)
    &&& dnl_mono(ga.dn, gb.dn)
    &&& upl_mono(ga.up, gb.up)
    &&& (a.alloc_taken ==> b.alloc_taken) && (a.alloc_end ==> b.alloc_end) && (a.alloc_source_talkback ==> b.alloc_source_talkback)
}
/// first-level restriction on what a sink can cause: once the nth item is counted and the output
/// has not been ended yet, nothing the sink does changes either link phase
pub open spec fn sink_rel<T>(a: Heap, ga: G<T>, b: Heap, gb: G<T>, c: Cap) -> bool {
    &&& (a.taken >= c.max && !b.end ==> gb.up.phase == ga.up.phase && gb.dn.phase == ga.dn.phase)
    &&& reach_rel(a, ga, b, gb, c)
}
/// if the count reached n in between, the delivery that counted the nth item ended both links
pub open spec fn reach_rel<T>(a: Heap, ga: G<T>, b: Heap, gb: G<T>, c: Cap) -> bool {
    a.taken < c.max && b.taken == c.max ==> gb.dn.phase != Dn::Live && gb.up.phase != Up::Live
}
pub open spec fn up_rel<T>(a: Heap, ga: G<T>, b: Heap, gb: G<T>, c: Cap) -> bool { reach_rel(a, ga, b, gb, c) }

//@include env_unary.rs OP=take TP=T G=G<T> GNAME=G HEAP=Heap I=T O=T

#[verifier::exec_allows_no_decreases_clause]
pub fn take__subscribe<T>(h: &mut Heap, g: &mut Ghost<G<T>>, c: &Cap, message: Message<Never, SinkH>)
    requires
        message is Handshake, old(g)@ == g_init::<T>(),
        !old(h).alloc_taken && !old(h).alloc_end && !old(h).alloc_source_talkback,
    ensures
        INV!(*final(h), final(g)@, *c),
        final(h).alloc_taken && final(h).alloc_end && final(h).alloc_source_talkback, /* @C13 every cell is allocated per subscription */
{
    let max = c.max; let source = UpSrc {};
    BODY!("take");
}

#[verifier::exec_allows_no_decreases_clause]
pub fn take__sink_talkback<T>(h: &mut Heap, g: &mut Ghost<G<T>>, c: &Cap, message: Message<Never, Never>)
    requires
        INV!(*old(h), old(g)@, *c),
        old(g)@.dn.phase == Dn::Live,
        message is Pull || message is Terminate || message is Error,
    ensures
        INV!(*final(h), final(g)@, *c),
        mono(*old(h), old(g)@, *final(h), final(g)@),
        sink_rel(*old(h), old(g)@, *final(h), final(g)@, *c),
        (message is Terminate || message is Error) ==> final(g)@.up.phase != Up::Live, /* @C04 disposal reaches the upstream */
        message is Error && old(g)@.up.phase == Up::Live ==> final(g)@.up.term_err == Some(message->Error_0), /* @C04 a sink Error goes upstream as that Error */
        (message is Terminate || message is Error) ==> final(g)@.dn.phase == Dn::EndedBySink, /* @C03 no termination back to a sink that disposed */
{
    let max = c.max; let taken = Cell_taken {}; let end = Cell_end {}; let source_talkback = Cell_source_talkback {};
    proof { g@ = G { dn: dn_recv(g@.dn, message), ..g@ }; }
    BODY!("sink_talkback");
}

#[verifier::exec_allows_no_decreases_clause]
pub fn take__source_talkback<T>(h: &mut Heap, g: &mut Ghost<G<T>>, c: &Cap, message: Message<T, UpTb>)
    requires
        INV!(*old(h), old(g)@, *c),
        !(message is Pull),
        message is Handshake ==> old(g)@.up.phase == Up::Subscribing,
        !(message is Handshake) ==> old(g)@.up.phase == Up::Live,
        message is Data && c.pullable ==> old(g)@.up.data.len() < old(g)@.up.pulls, // profile P: a pullable upstream answers an outstanding Pull only
    ensures
        INV!(*final(h), final(g)@, *c),
        mono(*old(h), old(g)@, *final(h), final(g)@),
        up_rel(*old(h), old(g)@, *final(h), final(g)@, *c), /* @C07 take completes the sink and disposes upstream right after the nth item */
        message is Data && old(h).taken < c.max && final(h).taken == c.max ==> final(g)@.dn.phase != Dn::Live && final(g)@.up.phase != Up::Live, /* @C07 take completes the sink and disposes upstream right after the nth item */
        message is Error && old(g)@.dn.phase == Dn::Live ==> final(g)@.dn.phase == Dn::EndedByUs && final(g)@.dn.err == Some(message->Error_0), /* @C05 error forwarded once, unchanged */
{
    let max = c.max; let taken = Cell_taken {}; let end = Cell_end {}; let source_talkback = Cell_source_talkback {};
    let sink = SinkH {}; let talkback = Tok_sink_talkback {};
    proof { g@ = G { up: up_recv(g@.up, message), ..g@ }; }
    BODY!("source_talkback");
}
