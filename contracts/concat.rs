//@op concat
//@properties C01 C02 C03 C04 C05 C06 C09 C13 C14 C17 C20
//@include concat_body.rs NCOND="c.n >= 1" LATE=true SINKTB=sink_talkback SKIP=empty_talkback
