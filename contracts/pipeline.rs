// ===================================================================================================
// C06: composition of the per-stage contracts along a pull pipeline
//     pipe!(from_iter(xs), stage_1, .., stage_k, for_each(f))
// No extracted code here: these are the lemmas that chain the stage contracts proved in the operator
// units under profile P (c.pullable).  The identification "downstream link of stage i = upstream link of
// stage i+1" and the induction over the number of stages are the stated meta-step (DESIGN 2.7, 5 C06).
// ===================================================================================================
//@pure
//@properties C06

/// a stage's list function (map f, filter p, running fold, take n, drop n, append, concat-map), abstract
pub uninterp spec fn stage_fn<A, B>(i: int, xs: Seq<A>) -> Seq<B>;

/// DATA: if every stage's output is its list function of its input (the `data` invariant part of each
/// operator unit, @C07 / @C09 / @C11), the last link carries the composition applied to the first link.
pub open spec fn composed<A>(k: int, xs: Seq<A>) -> Seq<A>
    decreases k
{
    if k <= 0 { xs } else { stage_fn::<A, A>(k, composed::<A>(k - 1, xs)) }
}
pub proof fn lemma_data_chain<A>(links: Seq<Seq<A>>, k: int)
    requires
        0 <= k < links.len(),
        forall|i: int| 1 <= i <= k ==> (#[trigger] links[i]) == stage_fn::<A, A>(i, links[i - 1]),
    ensures
        links[k] == composed::<A>(k, links[0]),
    decreases k
{
    if k > 0 { lemma_data_chain(links, k - 1); }
}

/// DEMAND: `out[i]` = Pulls outstanding on link i (link 0 is from_iter's output, link k is for_each's input).
/// Each live stage carries its downstream demand upstream unchanged (`pull` parts, @C14); from_iter has
/// nothing outstanding when a top-level call returns (@C14 in from_iter); for_each always has exactly one
/// Pull outstanding while its source is live (@C14 in for_each).  Hence, at top-level quiescence, the
/// pipeline cannot be live along its whole length: it has completed - it never stalls.
pub proof fn lemma_no_stall(out: Seq<int>, k: int)
    requires
        0 <= k < out.len(),
        forall|i: int| 1 <= i <= k ==> (#[trigger] out[i]) == out[i - 1],   // every stage is live and conserves demand
        out[0] == 0,                                                          // from_iter answered every Pull
    ensures
        out[k] != 1,                                                          // so for_each cannot be waiting for an answer
    decreases k
{
    if k > 0 { lemma_no_stall(out, k - 1); }
}

/// ORDER of evaluation of for_each's closure: the argument sequence equals the data of the last link
/// (`data` part of the for_each unit), so together with lemma_data_chain: f is called on exactly the
/// elements of the composed list function of the iterator's items, in order.
pub proof fn lemma_f_args<A>(links: Seq<Seq<A>>, k: int, f_args: Seq<A>)
    requires
        0 <= k < links.len(),
        forall|i: int| 1 <= i <= k ==> (#[trigger] links[i]) == stage_fn::<A, A>(i, links[i - 1]),
        f_args == links[k],
    ensures
        f_args == composed::<A>(k, links[0]),
{
    lemma_data_chain(links, k);
}
