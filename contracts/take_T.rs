// ===================================================================================================
// take(max), profile T (C19): deliveries racing into take from different threads.
// The body of the upstream handler is extracted from /repo/src/take.rs with an interference point
// `interfere(h, g, c)` in front of every statement that touches the shared cells (sequentially
// consistent interleaving at statement = shared-access granularity; a `fetch_update` is one atomic
// step).  `interfere` is the only assumed function: other threads running the same handler preserve the
// invariant and only ever increase the counter (rely); this thread's steps must do the same (guarantee),
// which is exactly the precondition of the next `interfere`.
// Scope: the Data path; the sink is passive here (no disposal racing with the deliveries), and the
// "terminated exactly once" half of C19 is not covered by this profile (see MANIFEST level_note).
// ===================================================================================================
//@op take
//@properties C19
//@interfere
//@skip ctor apply take sink_talkback
//@heap Heap
//@tp T
//@celltp
//@nogate sink source_talkback

pub struct G<T> { pub sent: Seq<T> }
pub struct Cap { pub max: usize }
pub struct Heap { pub taken: usize, pub end: bool, pub source_talkback: Option<UpTb>, pub alloc_taken: bool, pub alloc_end: bool, pub alloc_source_talkback: bool }
#[derive(Clone, Copy)] pub struct UpTb {}
#[derive(Clone, Copy)] pub struct SinkH {}
#[derive(Clone, Copy)] pub struct Tok_sink_talkback {}
//@cell taken: usize = atomic
//@cell end: bool = atomic
//@cell source_talkback: Option<UpTb> = swap_option

/// the invariant every atomic step of every thread preserves
pub open spec fn inv_t(h: Heap, c: Cap) -> bool {
    &&& h.taken <= c.max
    &&& h.source_talkback is Some
}
/// what the other threads may do between two of this thread's steps
pub open spec fn rely(a: Heap, b: Heap) -> bool {
    &&& b.taken >= a.taken
    &&& (a.end ==> b.end)
    &&& b.source_talkback == a.source_talkback
}
/// any number of atomic steps of the other threads
#[verifier::external_body]
pub fn interfere<T>(h: &mut Heap, g: &mut Ghost<G<T>>, c: &Cap)
    requires
        inv_t(*old(h), *c), /* @C19 the counter never exceeds n, whatever the other deliveries did in between */
    ensures
        inv_t(*final(h), *c), rely(*old(h), *final(h)),
{ unimplemented!() }

impl SinkH {
    /// a delivery to the sink takes time: the other threads keep running
    #[verifier::external_body]
    pub fn call<T>(&self, h: &mut Heap, g: &mut Ghost<G<T>>, c: &Cap, m: Message<T, Tok_sink_talkback>)
        requires
            inv_t(*old(h), *c), /* @C19 the counter never exceeds n, whatever the other deliveries did in between */
        ensures
            inv_t(*final(h), *c), rely(*old(h), *final(h)),
    { unimplemented!() }
}
impl UpTb {
    #[verifier::external_body]
    pub fn call<T>(&self, h: &mut Heap, g: &mut Ghost<G<T>>, c: &Cap, m: Message<Never, Never>)
        requires
            inv_t(*old(h), *c), /* @C19 the counter never exceeds n, whatever the other deliveries did in between */
        ensures
            inv_t(*final(h), *c), rely(*old(h), *final(h)),
    { unimplemented!() }
}

/// one racing delivery (or end) from upstream, on some thread
pub fn take__source_talkback_T<T>(h: &mut Heap, g: &mut Ghost<G<T>>, c: &Cap, message: Message<T, UpTb>)
    requires
        inv_t(*old(h), *c),
        message is Data || message is Terminate || message is Error,
    ensures
        inv_t(*final(h), *c), /* @C19 the counter never exceeds n, whatever the other deliveries did in between */
        rely(*old(h), *final(h)), /* @C19 a delivery only ever increases the counter */
{
    let max = c.max; let taken = Cell_taken {}; let end = Cell_end {}; let source_talkback = Cell_source_talkback {};
    let sink = SinkH {}; let talkback = Tok_sink_talkback {};
    BODY!("source_talkback");
}
