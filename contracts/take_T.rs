// ===================================================================================================
// take(max), profile T (C19): deliveries racing into take from different threads.
//
// The body of the upstream handler is extracted from /repo/src/take.rs.  The weaver puts, mechanically,
//   interfere(h, g, c);   in front of every statement that makes a shared access (at most one per statement,
//                         checked by the weaver; a `fetch_update` / `rcu` is one atomic step), and
//   after_step(h, g, c);  right after it: the ghost step that belongs to the atomic step just taken.  It is a
//                         function of the exec-heap delta only (not of the statement's text).
// Reasoning is rely/guarantee with auxiliary variables (Owicki-Gries / Jones):
//   * `interfere` is the only assumption: any number of atomic steps of the other threads happen there; they
//     preserve `inv_t` and satisfy `rely`.  Every delivery to the sink / upstream is an interference point too.
//   * the guarantee is checked on every step of this thread: the precondition of each interference point
//     demands `inv_t` and `guar(state at the previous interference point, state now)`.
//   * tickets: `tix` counts, over all threads, the items counted but not yet delivered; `mine` is this thread's
//     share.  Threads change `tix` only together with their own share (guar: tix - mine constant), so
//     tix = sum of all shares is preserved by everyone and `mine <= tix` is stable under interference.
// Scope: the Data path (racing deliveries); the sink is passive (no disposal racing with the deliveries).
// ===================================================================================================
//@op take
//@properties C19 C20
//@interfere
//@skip ctor apply take sink_talkback
//@heap Heap
//@tp T
//@celltp
//@nogate sink source_talkback

pub struct Gs {
    pub delivered: nat,      // data delivered to the sink, by all threads
    pub tix: nat,            // items counted (counter incremented) but not delivered yet, all threads
    pub mine: nat,           // .. this thread's share
    pub term_tix: nat,       // the right to complete the sink (held by whoever moved the counter to max)
    pub my_term: nat,
    pub terminated: nat,     // completions take itself sent to the sink
    pub up_tix: nat,         // the right to terminate the upstream
    pub my_up: nat,
    pub up_terminated: nat,  // terminations take itself sent upstream
}
pub struct G<T> { pub gs: Gs, pub snap: Heap, pub gsnap: Gs, pub dsnap: Heap, pub my_sent: Seq<T> }
pub struct Cap { pub max: usize }
#[derive(Clone, Copy)]
pub struct Heap { pub taken: usize, pub end: bool, pub source_talkback: Option<UpTb>, pub alloc_taken: bool, pub alloc_end: bool, pub alloc_source_talkback: bool }
#[derive(Clone, Copy)] pub struct UpTb {}
#[derive(Clone, Copy)] pub struct SinkH {}
#[derive(Clone, Copy)] pub struct Tok_sink_talkback {}
//@cell taken: usize = atomic
//@cell end: bool = atomic
//@cell source_talkback: Option<UpTb> = swap_option

/// the invariant every atomic step of every thread preserves
pub open spec fn inv_t(h: Heap, s: Gs, c: Cap) -> bool {
    &&& s.delivered + s.tix <= h.taken <= c.max
    &&& s.mine <= s.tix && s.my_term <= s.term_tix && s.my_up <= s.up_tix
    &&& s.term_tix + s.terminated <= (if h.taken == c.max { 1nat } else { 0nat })
    &&& s.up_tix + s.up_terminated <= (if h.taken == c.max { 1nat } else { 0nat })
    &&& h.source_talkback is Some
    &&& (h.end ==> h.taken == c.max)   // (passive sink) only the holder of the termination ticket sets `end`
}
/// what the other threads may do between two of this thread's steps
pub open spec fn rely(a: Heap, sa: Gs, b: Heap, sb: Gs) -> bool {
    &&& b.taken >= a.taken && (a.end ==> b.end) && b.source_talkback == a.source_talkback
    &&& sb.mine == sa.mine && sb.my_term == sa.my_term && sb.my_up == sa.my_up
    &&& sb.delivered >= sa.delivered && sb.terminated >= sa.terminated && sb.up_terminated >= sa.up_terminated
    &&& (sa.my_term >= 1 ==> b.end == a.end)
}
/// what one step of this thread may do (it is what the others rely on)
pub open spec fn guar(a: Heap, sa: Gs, b: Heap, sb: Gs) -> bool {
    &&& b.taken >= a.taken && (a.end ==> b.end) && b.source_talkback == a.source_talkback
    &&& sb.tix - sb.mine == sa.tix - sa.mine && sb.term_tix - sb.my_term == sa.term_tix - sa.my_term && sb.up_tix - sb.my_up == sa.up_tix - sa.my_up
    &&& sb.delivered >= sa.delivered && sb.terminated >= sa.terminated && sb.up_terminated >= sa.up_terminated
    &&& (!a.end && b.end ==> sb.my_term >= 1)
}
/// the ghost step attached to an atomic step of this thread: counting an item hands out a delivery ticket, and
/// the step that moves the counter to max also hands out the two termination tickets
pub open spec fn step_ghost(o: Heap, n: Heap, s: Gs, c: Cap) -> Gs {
    if n.taken == o.taken + 1 {
        let s1 = Gs { tix: s.tix + 1, mine: s.mine + 1, ..s };
        if n.taken == c.max { Gs { term_tix: s1.term_tix + 1, my_term: s1.my_term + 1, up_tix: s1.up_tix + 1, my_up: s1.my_up + 1, ..s1 } } else { s1 }
    } else { s }
}
pub open spec fn synced<T>(h: Heap, g: G<T>) -> bool { g.snap == h && g.dsnap == h && g.gsnap == g.gs }

/// any number of atomic steps of the other threads
#[verifier::external_body]
pub fn interfere<T>(h: &mut Heap, g: &mut Ghost<G<T>>, c: &Cap)
    requires
        inv_t(*old(h), old(g)@.gs, *c), /* @C19 at most n items are counted or delivered, and the termination tickets are unique, whatever the other deliveries did in between */
        guar(old(g)@.snap, old(g)@.gsnap, *old(h), old(g)@.gs), /* @C19 a step of this thread only increases the counter and only moves its own tickets */
    ensures
        inv_t(*final(h), final(g)@.gs, *c), rely(*old(h), old(g)@.gs, *final(h), final(g)@.gs),
        synced(*final(h), final(g)@), final(g)@.my_sent == old(g)@.my_sent,
{ unimplemented!() }

/// the ghost step of the atomic step this thread just took
pub fn after_step<T>(h: &Heap, g: &mut Ghost<G<T>>, c: &Cap)
    ensures final(g)@ == (G { gs: step_ghost(old(g)@.dsnap, *h, old(g)@.gs, *c), dsnap: *h, ..old(g)@ }),
{
    proof { g@ = G { gs: step_ghost(g@.dsnap, *h, g@.gs, *c), dsnap: *h, ..g@ }; }
}

pub open spec fn sink_effect<T>(s: Gs, m: Message<T, Tok_sink_talkback>) -> Gs {
    match m {
        Message::Data(_) => Gs { delivered: s.delivered + 1, tix: (s.tix - 1) as nat, mine: (s.mine - 1) as nat, ..s },
        Message::Terminate => Gs { terminated: s.terminated + 1, term_tix: (s.term_tix - 1) as nat, my_term: (s.my_term - 1) as nat, ..s },
        _ => s,
    }
}
impl SinkH {
    /// a delivery to the sink takes time: the other threads keep running
    #[verifier::external_body]
    pub fn call<T>(&self, h: &mut Heap, g: &mut Ghost<G<T>>, c: &Cap, m: Message<T, Tok_sink_talkback>)
        requires
            inv_t(*old(h), old(g)@.gs, *c), /* @C19 at most n items are counted or delivered, and the termination tickets are unique, whatever the other deliveries did in between */
            guar(old(g)@.snap, old(g)@.gsnap, *old(h), old(g)@.gs), /* @C19 a step of this thread only increases the counter and only moves its own tickets */
            m is Data ==> old(g)@.gs.mine >= 1, /* @C19 a datum goes to the sink only for an item this thread counted below the limit */
            m is Terminate ==> old(g)@.gs.my_term >= 1, /* @C19 only the delivery that moved the counter to n completes the sink */
        ensures
            inv_t(*final(h), final(g)@.gs, *c), rely(*old(h), sink_effect(old(g)@.gs, m), *final(h), final(g)@.gs),
            synced(*final(h), final(g)@),
            final(g)@.my_sent == (if m is Data { old(g)@.my_sent.push(m->Data_0) } else { old(g)@.my_sent }),
    { unimplemented!() }
}
impl UpTb {
    #[verifier::external_body]
    pub fn call<T>(&self, h: &mut Heap, g: &mut Ghost<G<T>>, c: &Cap, m: Message<Never, Never>)
        requires
            inv_t(*old(h), old(g)@.gs, *c), /* @C19 at most n items are counted or delivered, and the termination tickets are unique, whatever the other deliveries did in between */
            guar(old(g)@.snap, old(g)@.gsnap, *old(h), old(g)@.gs), /* @C19 a step of this thread only increases the counter and only moves its own tickets */
            m is Terminate || m is Error ==> old(g)@.gs.my_up >= 1, /* @C19 only the delivery that moved the counter to n terminates the upstream */
        ensures
            inv_t(*final(h), final(g)@.gs, *c),
            rely(*old(h), (if m is Terminate || m is Error { Gs { up_terminated: old(g)@.gs.up_terminated + 1, up_tix: (old(g)@.gs.up_tix - 1) as nat, my_up: (old(g)@.gs.my_up - 1) as nat, ..old(g)@.gs } } else { old(g)@.gs }), *final(h), final(g)@.gs),
            synced(*final(h), final(g)@), final(g)@.my_sent == old(g)@.my_sent,
    { unimplemented!() }
}

/// C19 as a consequence of the invariant: at most n data reach the sink, and take completes its sink and
/// terminates its upstream at most once each
pub proof fn lemma_c19(h: Heap, s: Gs, c: Cap)
    requires inv_t(h, s, c),
    ensures s.delivered <= c.max, s.terminated <= 1, s.up_terminated <= 1,
{}

/// one racing delivery from upstream, on some thread
pub fn take__source_talkback_T<T>(h: &mut Heap, g: &mut Ghost<G<T>>, c: &Cap, message: Message<T, UpTb>)
    requires
        inv_t(*old(h), old(g)@.gs, *c), synced(*old(h), old(g)@),
        message is Data,
        old(g)@.gs.mine == 0 && old(g)@.gs.my_term == 0 && old(g)@.gs.my_up == 0,
        old(g)@.my_sent.len() == 0,
    ensures
        inv_t(*final(h), final(g)@.gs, *c), /* @C19 at most n items are counted or delivered, and the termination tickets are unique, whatever the other deliveries did in between */
        guar(final(g)@.snap, final(g)@.gsnap, *final(h), final(g)@.gs), /* @C19 a step of this thread only increases the counter and only moves its own tickets */
        final(g)@.gs.mine == 0, /* @C19 an item that was counted is delivered */
        final(g)@.gs.my_term == 0 && final(g)@.gs.my_up == 0, /* @C19 the delivery that moved the counter to n terminates both sides, unless the sink had disposed */
        final(g)@.my_sent.len() <= 1 && (final(g)@.my_sent.len() == 1 ==> final(g)@.my_sent[0] == message->Data_0), /* @C19 a delivery forwards its own datum at most once */
{
    let max = c.max; let taken = Cell_taken {}; let end = Cell_end {}; let source_talkback = Cell_source_talkback {};
    let sink = SinkH {}; let talkback = Tok_sink_talkback {};
    BODY!("source_talkback");
}
