// Most general conformant upstream source of an operator (DESIGN 2.2-2.4).  Text parameters: $OP, $TP, $G, $GNAME, $HEAP, $I, $SFX (suffix of the handle / handler names), $UPF (ghost field of this upstream).
#[derive(Clone, Copy)] pub struct UpTb$SFX {}
#[derive(Clone, Copy)] pub struct UpSrc$SFX {}
impl UpSrc$SFX { pub fn into(self) -> (r: Self) ensures r == self { self } }
impl<$TP> Handle<$G, Message<Never, Never>> for UpTb$SFX {
    type HH = $HEAP;
    type CC = Cap;
    open spec fn gate(&self, k: int, h: $HEAP, g: $G, c: Cap, m: Message<Never, Never>) -> bool {
        if k == $GATE_UP_KIND { m is Pull || m is Terminate || m is Error }
        else if k == $GATE_UP_GREETED { g.$UPF.phase != Up::Idle && g.$UPF.phase != Up::Subscribing }
        else if k == $GATE_UP_PULL_LIVE { m is Pull && !dn_over(g.dn.phase) ==> g.$UPF.phase != Up::EndedByUs }
        else if k == $GATE_UP_PULL_SELF { m is Pull && !dn_over(g.dn.phase) ==> g.$UPF.phase != Up::EndedBySelf && g.$UPF.phase != Up::ErroredBySelf }
        else if k == $GATE_UP_PULL_OVER { m is Pull && dn_over(g.dn.phase) ==> !up_over(g.$UPF.phase) }
        else if k == $GATE_UP_TERM_ONCE { !(m is Pull) ==> g.$UPF.phase != Up::EndedByUs }
        else if k == $GATE_UP_TERM_SELF { !(m is Pull) ==> g.$UPF.phase != Up::EndedBySelf && g.$UPF.phase != Up::ErroredBySelf }
        else { true }
    }
    open spec fn post(&self, g: $G, m: Message<Never, Never>) -> $G { $GNAME { $UPF: up_send(g.$UPF, m), ..g } }
    open spec fn needs_inv(&self, g: $G, m: Message<Never, Never>, p: int) -> bool { m is Pull }
    open spec fn extra(&self, h: Self::HH, g: $G, c: Self::CC, m: Message<Never, Never>) -> bool { true }
}
impl UpTb$SFX {
    /// the operator talks to its upstream on the talkback it was greeted with
    #[verifier::exec_allows_no_decreases_clause]
    pub fn call<$TP>(&self, h: &mut $HEAP, g: &mut Ghost<$G>, c: &Cap, m: Message<Never, Never>)
        requires
            GATES!(self, *old(h), old(g)@, *c, m),
            self.extra(*old(h), old(g)@, *c, m),
            self.needs_inv(old(g)@, m, $P) ==> INV!(*old(h), self.post(old(g)@, m), *c),
        ensures
            self.needs_inv(old(g)@, m, $P) ==> INV!(*final(h), final(g)@, *c),
            self.needs_inv(old(g)@, m, 0) ==> mono(*old(h), self.post(old(g)@, m), *final(h), final(g)@),
            self.needs_inv(old(g)@, m, 0) ==> up_rel(*old(h), self.post(old(g)@, m), *final(h), final(g)@, *c),
            !self.needs_inv(old(g)@, m, 0) ==> *final(h) == *old(h) && final(g)@ == self.post(old(g)@, m),
    {
        proof { g@ = self.post(g@, m); }
        if matches!(m, Message::Terminate | Message::Error(_)) { return; }   // a terminated source is silent
        up_events$SFX(h, g, c);
    }
}
/// any finite sequence of admissible upstream events
#[verifier::exec_allows_no_decreases_clause]
pub fn up_events$SFX<$TP>(h: &mut $HEAP, g: &mut Ghost<$G>, c: &Cap)
    requires
        INV!(*old(h), old(g)@, *c),
    ensures
        INV!(*final(h), final(g)@, *c),
        mono(*old(h), old(g)@, *final(h), final(g)@), up_rel(*old(h), old(g)@, *final(h), final(g)@, *c),
{
    let ghost h0 = *h; let ghost g0 = g@;
    loop
        invariant
            INV!(*h, g@, *c),
            mono(h0, g0, *h, g@), up_rel(h0, g0, *h, g@, *c),
    {
        if nondet_bool() { break; }
        let ghost live = g@.$UPF.phase == Up::Live && ($EVGUARD);
        if ghost_test(Ghost(live)) {
            if nondet_bool() {
                if !c.pullable || ghost_test(Ghost(g@.$UPF.data.len() < g@.$UPF.pulls)) {
                    $OP__source_talkback$SFX(h, g, c, Message::Data(nondet::<$I>()));
                }
            }
            else if nondet_bool() { $OP__source_talkback$SFX(h, g, c, Message::Terminate); }
            else { $OP__source_talkback$SFX(h, g, c, Message::Error(nondet_u64())); }
        }
    }
}
impl<$TP> Handle<$G, Message<Never, Tok_source_talkback$SFX>> for UpSrc$SFX {
    type HH = $HEAP;
    type CC = Cap;
    open spec fn gate(&self, k: int, h: $HEAP, g: $G, c: Cap, m: Message<Never, Tok_source_talkback$SFX>) -> bool {
        if k == $GATE_SUB_KIND { m is Handshake }
        else if k == $GATE_SUB_ONCE { g.$UPF.phase == Up::Idle }
        else if k == $GATE_SUB_OVER { !dn_over(g.dn.phase) }
        else { true }
    }
    open spec fn post(&self, g: $G, m: Message<Never, Tok_source_talkback$SFX>) -> $G { $GNAME { $UPF: UpLink { phase: Up::Subscribing, ..g.$UPF }, ..g } }
    open spec fn needs_inv(&self, g: $G, m: Message<Never, Tok_source_talkback$SFX>, p: int) -> bool { true }
    open spec fn extra(&self, h: Self::HH, g: $G, c: Self::CC, m: Message<Never, Tok_source_talkback$SFX>) -> bool { $SUBPRE }
}
impl UpSrc$SFX {
    /// the operator subscribes to its upstream source
    #[verifier::exec_allows_no_decreases_clause]
    pub fn call<$TP>(&self, h: &mut $HEAP, g: &mut Ghost<$G>, c: &Cap, m: Message<Never, Tok_source_talkback$SFX>)
        requires
            GATES!(self, *old(h), old(g)@, *c, m),
            self.extra(*old(h), old(g)@, *c, m),
            self.needs_inv(old(g)@, m, $P) ==> INV!(*old(h), self.post(old(g)@, m), *c),
        ensures
            INV!(*final(h), final(g)@, *c),
            mono(*old(h), self.post(old(g)@, m), *final(h), final(g)@),
            $SUBPOST,
    {
        proof { g@ = self.post(g@, m); }
        if $LATE && nondet_bool() { return; }   // the source greets later, at top level (world)
        // a conformant source greets inside the subscribing call ...
        $OP__source_talkback$SFX(h, g, c, Message::Handshake(UpTb$SFX {}));
        // ... and may emit, end or fail before returning
        up_events$SFX(h, g, c);
    }
}

