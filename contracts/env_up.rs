// Most general conformant upstream source of an operator (DESIGN 2.2-2.4).  Text parameters: $OP, $TP, $G, $GNAME, $HEAP, $I.
#[derive(Clone, Copy)] pub struct UpTb {}
#[derive(Clone, Copy)] pub struct UpSrc {}
impl UpSrc { pub fn into(self) -> (r: Self) ensures r == self { self } }
impl<$TP> Handle<$G, Message<Never, Never>> for UpTb {
    type HH = $HEAP;
    type CC = Cap;
    open spec fn gate(&self, k: int, h: $HEAP, g: $G, c: Cap, m: Message<Never, Never>) -> bool {
        if k == $GATE_UP_KIND { m is Pull || m is Terminate || m is Error }
        else if k == $GATE_UP_GREETED { g.up.phase != Up::Idle && g.up.phase != Up::Subscribing }
        else if k == $GATE_UP_PULL_LIVE { m is Pull ==> !up_over(g.up.phase) }
        else if k == $GATE_UP_TERM_ONCE { !(m is Pull) ==> g.up.phase != Up::EndedByUs }
        else if k == $GATE_UP_TERM_SELF { !(m is Pull) ==> g.up.phase != Up::EndedBySelf && g.up.phase != Up::ErroredBySelf }
        else { true }
    }
    open spec fn post(&self, g: $G, m: Message<Never, Never>) -> $G { $GNAME { up: up_send(g.up, m), ..g } }
    open spec fn needs_inv(&self, g: $G, m: Message<Never, Never>, p: int) -> bool { m is Pull }
    open spec fn extra(&self, h: Self::HH, g: $G, c: Self::CC, m: Message<Never, Never>) -> bool { true }
}
impl UpTb {
    /// the operator talks to its upstream on the talkback it was greeted with
    #[verifier::exec_allows_no_decreases_clause]
    pub fn call<$TP>(&self, h: &mut $HEAP, g: &mut Ghost<$G>, c: &Cap, m: Message<Never, Never>)
        requires
            GATES!(self, *old(h), old(g)@, *c, m),
            self.extra(*old(h), old(g)@, *c, m),
            self.needs_inv(old(g)@, m, $P) ==> INV!(*old(h), self.post(old(g)@, m), *c),
        ensures
            self.needs_inv(old(g)@, m, $P) ==> INV!(*final(h), final(g)@, *c),
            self.needs_inv(old(g)@, m, 0) ==> mono(*old(h), self.post(old(g)@, m), *final(h), final(g)@),
            self.needs_inv(old(g)@, m, 0) ==> up_rel(*old(h), self.post(old(g)@, m), *final(h), final(g)@, *c),
            !self.needs_inv(old(g)@, m, 0) ==> *final(h) == *old(h) && final(g)@ == self.post(old(g)@, m),
    {
        proof { g@ = self.post(g@, m); }
        if matches!(m, Message::Terminate | Message::Error(_)) { return; }   // a terminated source is silent
        up_events(h, g, c);
    }
}
/// any finite sequence of admissible upstream events
#[verifier::exec_allows_no_decreases_clause]
pub fn up_events<$TP>(h: &mut $HEAP, g: &mut Ghost<$G>, c: &Cap)
    requires
        INV!(*old(h), old(g)@, *c),
    ensures
        INV!(*final(h), final(g)@, *c),
        mono(*old(h), old(g)@, *final(h), final(g)@), up_rel(*old(h), old(g)@, *final(h), final(g)@, *c),
{
    let ghost h0 = *h; let ghost g0 = g@;
    loop
        invariant
            INV!(*h, g@, *c),
            mono(h0, g0, *h, g@), up_rel(h0, g0, *h, g@, *c),
    {
        if nondet_bool() { break; }
        if ghost_test(Ghost(g@.up.phase == Up::Live)) {
            if nondet_bool() {
                if !c.pullable || ghost_test(Ghost(g@.up.data.len() < g@.up.pulls)) {
                    $OP__source_talkback(h, g, c, Message::Data(nondet::<$I>()));
                }
            }
            else if nondet_bool() { $OP__source_talkback(h, g, c, Message::Terminate); }
            else { $OP__source_talkback(h, g, c, Message::Error(nondet_u64())); }
        }
    }
}
impl<$TP> Handle<$G, Message<Never, Tok_source_talkback>> for UpSrc {
    type HH = $HEAP;
    type CC = Cap;
    open spec fn gate(&self, k: int, h: $HEAP, g: $G, c: Cap, m: Message<Never, Tok_source_talkback>) -> bool {
        if k == $GATE_SUB_KIND { m is Handshake }
        else if k == $GATE_SUB_ONCE { g.up.phase == Up::Idle }
        else if k == $GATE_SUB_OVER { !dn_over(g.dn.phase) }
        else { true }
    }
    open spec fn post(&self, g: $G, m: Message<Never, Tok_source_talkback>) -> $G { $GNAME { up: UpLink { phase: Up::Subscribing, ..g.up }, ..g } }
    open spec fn needs_inv(&self, g: $G, m: Message<Never, Tok_source_talkback>, p: int) -> bool { true }
    open spec fn extra(&self, h: Self::HH, g: $G, c: Self::CC, m: Message<Never, Tok_source_talkback>) -> bool { true }
}
impl UpSrc {
    /// the operator subscribes to its upstream source
    #[verifier::exec_allows_no_decreases_clause]
    pub fn call<$TP>(&self, h: &mut $HEAP, g: &mut Ghost<$G>, c: &Cap, m: Message<Never, Tok_source_talkback>)
        requires
            GATES!(self, *old(h), old(g)@, *c, m),
            self.extra(*old(h), old(g)@, *c, m),
            self.needs_inv(old(g)@, m, $P) ==> INV!(*old(h), self.post(old(g)@, m), *c),
        ensures
            INV!(*final(h), final(g)@, *c),
            mono(*old(h), self.post(old(g)@, m), *final(h), final(g)@),
    {
        proof { g@ = self.post(g@, m); }
        // a conformant source greets inside the subscribing call ...
        $OP__source_talkback(h, g, c, Message::Handshake(UpTb {}));
        // ... and may emit, end or fail before returning
        up_events(h, g, c);
    }
}

