//@op concat
//@properties C01 C02 C03 C04 C05 C09 C13 C14 C17 C20
// the zero-member case, a unit of its own: the sink is greeted with a talkback that only records a disposal
// (`empty_talkback`) and is completed inside the subscribing call
// with no members the member handler and `next` are unreachable
//@vacuous-ok concat__source_talkback concat__next
//@include concat_body.rs NCOND="c.n == 0" LATE=false SINKTB=empty_talkback SKIP=sink_talkback
