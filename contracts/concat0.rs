//@op concat
//@properties C01 C02 C03 C04 C05 C09 C13 C14 C17 C20
// the zero-member case, kept in a unit of its own so that the known finding F6 (a sink that was never
// greeted is terminated) cannot hide a different defect at the same call site for n >= 1
// with no members the member handler and the sink talkback are unreachable (the sink is never greeted)
//@vacuous-ok concat__source_talkback concat__sink_talkback concat__next
//@include concat_body.rs NCOND="c.n == 0"
