// ===================================================================================================
// merge!(members..), profile T (C18): members delivering from different threads.
//
// The member handler is extracted from /repo/src/merge.rs with `interfere` / `after_step` woven around every
// shared access (see take_T.rs for the scheme: rely/guarantee with auxiliary variables; `interfere_raw` is
// the only assumption).  One "thread" is one invocation of the handler of member `me`; a member does not
// overlap its own deliveries (it is a callbag source driven by one task), so the entries `[me]` of the ghost
// sequences are this thread's own and the others never change them (rely), while this thread never changes
// the entries of the others (guar).
// Tickets: the `fetch_add` that moves `start_count` from 0 hands out the one greeting ticket, the `fetch_add`
// that moves `end_count` to n hands out the one completion ticket (ghost step = function of the heap delta).
// Scope: the sink is passive (no Pull / disposal racing with the deliveries); n >= 1 members, at most one of
// them failing.  "Completion" is the normal one (Terminate); for a failing member C18 is read as: the Error is
// forwarded once and no Terminate is delivered besides it.
// ===================================================================================================
//@op merge
//@properties C18 C20
//@interfere
//@skip ctor merge sink_talkback
//@heap Heap
//@tp T
//@celltp
//@nogate sink source_talkback source

pub struct Gs {
    pub me: int,
    pub started: Seq<bool>,   // member j is counted in start_count
    pub counted: Seq<bool>,   // member j is counted in end_count
    pub inflight: Seq<bool>,  // a data delivery of member j is in progress
    pub mdone: Seq<bool>,     // member j has begun its final delivery (Terminate / Error): no data of j afterwards
    pub failer: int,          // the member whose final delivery is an Error (at most one), or -1
    pub greet_tix: nat, pub my_greet: nat, pub greeted: nat,       // greetings of the sink
    pub end_tix: nat, pub my_end: nat, pub completed: nat,         // Terminate deliveries to the sink
    pub errd: nat,                                                 // Error deliveries to the sink
}
pub struct G<T> { pub gs: Gs, pub snap: Heap, pub gsnap: Gs, pub dsnap: Heap, pub my_sent: Seq<T> }
pub struct Cap { pub n: usize }
pub struct Heap {
    pub source_talkbacks: Vec<Option<UpTb>>, pub start_count: usize, pub end_count: usize, pub ended: bool,
    pub alloc_source_talkbacks: bool, pub alloc_start_count: bool, pub alloc_end_count: bool, pub alloc_ended: bool,
}
#[derive(Clone, Copy)] pub struct UpTb { pub i: usize }
#[derive(Clone, Copy)] pub struct SinkH {}
#[derive(Clone, Copy)] pub struct Tok_sink_talkback {}
//@cell start_count: usize = atomic
//@cell end_count: usize = atomic
//@cell ended: bool = atomic

/// `Arc<Vec<ArcSwapOption<Source<T>>>>`: a fixed-length vector of cells
#[derive(Clone, Copy)] pub struct Cell_source_talkbacks { pub n: usize }
#[derive(Clone, Copy)] pub struct CellRef_source_talkbacks { pub k: usize }
impl Cell_source_talkbacks {
    pub fn len(&self) -> (r: usize) ensures r == self.n { self.n }
    /// `v[k]`: indexing panics when out of bounds
    pub fn at(&self, k: usize) -> (r: CellRef_source_talkbacks) requires k < self.n ensures r.k == k { CellRef_source_talkbacks { k } }
}
impl CellRef_source_talkbacks {
    pub fn load(&self, h: &Heap) -> (r: Option<UpTb>) requires self.k < h.source_talkbacks@.len() ensures r == h.source_talkbacks@[self.k as int] { h.source_talkbacks[self.k] }
    pub fn store(&self, h: &mut Heap, v: Option<UpTb>)
        requires self.k < old(h).source_talkbacks@.len()
        ensures final(h).source_talkbacks@ == old(h).source_talkbacks@.update(self.k as int, v),
            final(h).start_count == old(h).start_count, final(h).end_count == old(h).end_count, final(h).ended == old(h).ended,
            final(h).alloc_source_talkbacks == old(h).alloc_source_talkbacks, final(h).alloc_start_count == old(h).alloc_start_count, final(h).alloc_end_count == old(h).alloc_end_count, final(h).alloc_ended == old(h).alloc_ended,
    { h.source_talkbacks.set(self.k, v); }
}

pub open spec fn count_true(s: Seq<bool>) -> nat
    decreases s.len()
{
    if s.len() == 0 { 0 } else { count_true(s.drop_last()) + (if s.last() { 1nat } else { 0nat }) }
}
pub proof fn lemma_count_set(s: Seq<bool>, i: int)
    requires 0 <= i < s.len(), !s[i],
    ensures count_true(s.update(i, true)) == count_true(s) + 1,
    decreases s.len()
{
    if i == s.len() - 1 {
        assert(s.update(i, true).drop_last() =~= s.drop_last());
    } else {
        assert(s.update(i, true).drop_last() =~= s.drop_last().update(i, true));
        lemma_count_set(s.drop_last(), i);
    }
}
pub proof fn lemma_count_bounds(s: Seq<bool>)
    ensures
        count_true(s) <= s.len(),
        (forall|i: int| 0 <= i < s.len() && !(#[trigger] s[i]) ==> count_true(s) < s.len()),
        (forall|i: int| 0 <= i < s.len() && (#[trigger] s[i]) ==> count_true(s) >= 1),
    decreases s.len()
{
    if s.len() > 0 {
        let p = s.drop_last();
        lemma_count_bounds(p);
        assert forall|i: int| 0 <= i < s.len() && !(#[trigger] s[i]) implies count_true(s) < s.len() by {
            if i < p.len() { assert(p[i] == s[i]); }
        }
        assert forall|i: int| 0 <= i < s.len() && (#[trigger] s[i]) implies count_true(s) >= 1 by {
            if i < p.len() { assert(p[i] == s[i]); }
        }
    }
}

/// the invariant every atomic step of every thread preserves
pub open spec fn inv_t(h: Heap, s: Gs, c: Cap) -> bool {
    &&& 1 <= c.n && 0 <= s.me < c.n
    &&& s.started.len() == c.n && s.counted.len() == c.n && s.inflight.len() == c.n && s.mdone.len() == c.n
    &&& h.source_talkbacks@.len() == c.n
    &&& h.start_count == count_true(s.started) && h.end_count == count_true(s.counted)
    &&& s.greet_tix + s.greeted == (if h.start_count >= 1 { 1nat } else { 0nat })
    &&& s.end_tix + s.completed == (if h.end_count == c.n { 1nat } else { 0nat })
    &&& s.my_greet <= s.greet_tix && s.my_end <= s.end_tix
    &&& (forall|j: int| #![trigger s.counted[j]] #![trigger s.mdone[j]] #![trigger s.inflight[j]] 0 <= j < c.n ==> (s.counted[j] ==> s.mdone[j] && j != s.failer) && (s.mdone[j] ==> !s.inflight[j]))
    &&& -1 <= s.failer < c.n
    &&& s.errd <= 1 && (s.errd == 1 ==> s.failer >= 0)
}
/// consequences of the invariant that need the counting lemmas (proved in `interfere`, never assumed)
pub open spec fn facts(h: Heap, s: Gs, c: Cap) -> bool {
    &&& (h.end_count == c.n ==> forall|j: int| #![trigger s.counted[j]] #![trigger s.mdone[j]] #![trigger s.inflight[j]] 0 <= j < c.n ==> s.counted[j])
    &&& (s.failer >= 0 ==> h.end_count < c.n)
    &&& h.start_count <= c.n && h.end_count <= c.n
    &&& (!s.started[s.me] ==> h.start_count < c.n) && (!s.counted[s.me] ==> h.end_count < c.n)
}
pub proof fn lemma_facts(h: Heap, s: Gs, c: Cap)
    requires inv_t(h, s, c),
    ensures facts(h, s, c),
{
    lemma_count_bounds(s.started); lemma_count_bounds(s.counted);
    if s.failer >= 0 { assert(!s.counted[s.failer]); }
}
/// the entries of member `me` and this thread's tickets belong to this thread
pub open spec fn own_same(a: Gs, b: Gs) -> bool {
    &&& b.me == a.me && b.my_greet == a.my_greet && b.my_end == a.my_end
    &&& b.started[a.me] == a.started[a.me] && b.counted[a.me] == a.counted[a.me] && b.inflight[a.me] == a.inflight[a.me]
    &&& b.mdone[a.me] == a.mdone[a.me] && ((b.failer == a.me) == (a.failer == a.me))
}
pub open spec fn mono(a: Heap, sa: Gs, b: Heap, sb: Gs) -> bool {
    &&& b.start_count >= a.start_count && b.end_count >= a.end_count && (a.ended ==> b.ended)
    &&& sb.greeted >= sa.greeted && sb.completed >= sa.completed && sb.errd >= sa.errd
    &&& (forall|j: int| 0 <= j < sa.started.len() && #[trigger] sa.started[j] ==> sb.started[j])
    &&& (forall|j: int| 0 <= j < sa.counted.len() && #[trigger] sa.counted[j] ==> sb.counted[j])
    &&& (forall|j: int| 0 <= j < sa.mdone.len() && #[trigger] sa.mdone[j] ==> sb.mdone[j])
    &&& (sa.failer >= 0 ==> sb.failer == sa.failer)
}
/// what the other threads may do between two of this thread's steps
pub open spec fn rely(a: Heap, sa: Gs, b: Heap, sb: Gs) -> bool {
    &&& mono(a, sa, b, sb) && own_same(sa, sb)
    &&& b.source_talkbacks@[sa.me] == a.source_talkbacks@[sa.me]
    &&& (sa.failer == sa.me ==> sb.errd == sa.errd)   // only the failing member's thread forwards an error
}
/// what one step of this thread may do (it is what the others rely on)
pub open spec fn guar(a: Heap, sa: Gs, b: Heap, sb: Gs) -> bool {
    &&& mono(a, sa, b, sb) && sb.me == sa.me
    &&& sb.greet_tix - sb.my_greet == sa.greet_tix - sa.my_greet && sb.end_tix - sb.my_end == sa.end_tix - sa.my_end
    &&& (forall|j: int| 0 <= j < sa.started.len() && j != sa.me ==> #[trigger] sb.started[j] == sa.started[j])
    &&& (forall|j: int| 0 <= j < sa.counted.len() && j != sa.me ==> #[trigger] sb.counted[j] == sa.counted[j])
    &&& (forall|j: int| 0 <= j < sa.inflight.len() && j != sa.me ==> #[trigger] sb.inflight[j] == sa.inflight[j])
    &&& (forall|j: int| 0 <= j < sa.mdone.len() && j != sa.me ==> #[trigger] sb.mdone[j] == sa.mdone[j])
    &&& sb.failer == sa.failer
    &&& (forall|j: int| 0 <= j < a.source_talkbacks@.len() && j != sa.me ==> #[trigger] b.source_talkbacks@[j] == a.source_talkbacks@[j])
    &&& (sb.errd > sa.errd ==> sa.failer == sa.me)
}
/// the ghost step attached to an atomic step of this thread
pub open spec fn step_ghost(o: Heap, n: Heap, s: Gs, c: Cap) -> Gs {
    let s1 = if n.start_count == o.start_count + 1 {
        let t = Gs { started: s.started.update(s.me, true), ..s };
        if o.start_count == 0 { Gs { greet_tix: t.greet_tix + 1, my_greet: t.my_greet + 1, ..t } } else { t }
    } else { s };
    if n.end_count == o.end_count + 1 {
        let t = Gs { counted: s1.counted.update(s1.me, true), ..s1 };
        if n.end_count == c.n { Gs { end_tix: t.end_tix + 1, my_end: t.my_end + 1, ..t } } else { t }
    } else { s1 }
}
pub open spec fn synced<T>(h: Heap, g: G<T>) -> bool { g.snap == h && g.dsnap == h && g.gsnap == g.gs }

/// any number of atomic steps of the other threads (the one assumption of the profile)
#[verifier::external_body]
pub fn interfere_raw<T>(h: &mut Heap, g: &mut Ghost<G<T>>, c: &Cap)
    requires
        inv_t(*old(h), old(g)@.gs, *c),
        guar(old(g)@.snap, old(g)@.gsnap, *old(h), old(g)@.gs),
    ensures
        inv_t(*final(h), final(g)@.gs, *c), rely(*old(h), old(g)@.gs, *final(h), final(g)@.gs),
        synced(*final(h), final(g)@), final(g)@.my_sent == old(g)@.my_sent,
{ unimplemented!() }
pub fn interfere<T>(h: &mut Heap, g: &mut Ghost<G<T>>, c: &Cap)
    requires
        inv_t(*old(h), old(g)@.gs, *c), /* @C18 the counters count the members that greeted / completed, the greeting and completion tickets are unique, and a counted member delivers nothing more -- after every step of this thread */
        guar(old(g)@.snap, old(g)@.gsnap, *old(h), old(g)@.gs), /* @C18 a step of this thread only moves the counters forward and only touches its own member's entries and tickets */
    ensures
        inv_t(*final(h), final(g)@.gs, *c), facts(*final(h), final(g)@.gs, *c), rely(*old(h), old(g)@.gs, *final(h), final(g)@.gs),
        synced(*final(h), final(g)@), final(g)@.my_sent == old(g)@.my_sent,
{
    interfere_raw(h, g, c);
    proof { lemma_facts(*h, g@.gs, *c); }
}

/// the ghost step of the atomic step this thread just took
pub fn after_step<T>(h: &Heap, g: &mut Ghost<G<T>>, c: &Cap)
    ensures
        final(g)@ == (G { gs: step_ghost(old(g)@.dsnap, *h, old(g)@.gs, *c), dsnap: *h, ..old(g)@ }),
        0 <= old(g)@.gs.me < old(g)@.gs.started.len() && !old(g)@.gs.started[old(g)@.gs.me] ==> count_true(old(g)@.gs.started.update(old(g)@.gs.me, true)) == count_true(old(g)@.gs.started) + 1,
        0 <= old(g)@.gs.me < old(g)@.gs.counted.len() && !old(g)@.gs.counted[old(g)@.gs.me] ==> count_true(old(g)@.gs.counted.update(old(g)@.gs.me, true)) == count_true(old(g)@.gs.counted) + 1,
{
    proof {
        let s = g@.gs;
        if 0 <= s.me < s.started.len() && !s.started[s.me] { lemma_count_set(s.started, s.me); }
        if 0 <= s.me < s.counted.len() && !s.counted[s.me] { lemma_count_set(s.counted, s.me); }
        g@ = G { gs: step_ghost(g@.dsnap, *h, g@.gs, *c), dsnap: *h, ..g@ };
    }
}

pub open spec fn sink_effect<T>(s: Gs, m: Message<T, Tok_sink_talkback>) -> Gs {
    match m {
        Message::Handshake(_) => Gs { greeted: s.greeted + 1, greet_tix: (s.greet_tix - 1) as nat, my_greet: (s.my_greet - 1) as nat, ..s },
        Message::Terminate => Gs { completed: s.completed + 1, end_tix: (s.end_tix - 1) as nat, my_end: (s.my_end - 1) as nat, ..s },
        Message::Error(_) => Gs { errd: s.errd + 1, ..s },
        _ => s,
    }
}
impl SinkH {
    /// a delivery to the sink takes time: the other threads keep running
    #[verifier::external_body]
    pub fn call_raw<T>(&self, h: &mut Heap, g: &mut Ghost<G<T>>, c: &Cap, m: Message<T, Tok_sink_talkback>)
        requires inv_t(*old(h), sink_effect(old(g)@.gs, m), *c),
        ensures
            inv_t(*final(h), final(g)@.gs, *c), rely(*old(h), sink_effect(old(g)@.gs, m), *final(h), final(g)@.gs),
            synced(*final(h), final(g)@),
            final(g)@.my_sent == (if m is Data { old(g)@.my_sent.push(m->Data_0) } else { old(g)@.my_sent }),
    { unimplemented!() }
    pub fn call<T>(&self, h: &mut Heap, g: &mut Ghost<G<T>>, c: &Cap, m: Message<T, Tok_sink_talkback>)
        requires
            inv_t(*old(h), old(g)@.gs, *c), /* @C18 the counters count the members that greeted / completed, the greeting and completion tickets are unique, and a counted member delivers nothing more -- after every step of this thread */
            guar(old(g)@.snap, old(g)@.gsnap, *old(h), old(g)@.gs), /* @C18 a step of this thread only moves the counters forward and only touches its own member's entries and tickets */
            !(m is Pull),
            m is Handshake ==> old(g)@.gs.my_greet >= 1, /* @C18 the sink is greeted only by the thread whose fetch_add moved start_count from 0 */
            m is Data ==> old(g)@.gs.inflight[old(g)@.gs.me], /* @C18 a datum goes to the sink only during the delivery that brought it */
            m is Terminate ==> old(g)@.gs.my_end >= 1, /* @C18 the sink is completed only by the thread whose fetch_add moved end_count to n */
            m is Terminate ==> forall|j: int| 0 <= j < c.n ==> !#[trigger] old(g)@.gs.inflight[j], /* @C18 completion is delivered after every data delivery has returned */
            m is Error ==> old(g)@.gs.failer == old(g)@.gs.me && old(g)@.gs.errd == 0, /* @C18 an error is forwarded once, by the failing member's thread */
        ensures
            inv_t(*final(h), final(g)@.gs, *c), facts(*final(h), final(g)@.gs, *c), rely(*old(h), sink_effect(old(g)@.gs, m), *final(h), final(g)@.gs),
            synced(*final(h), final(g)@),
            final(g)@.my_sent == (if m is Data { old(g)@.my_sent.push(m->Data_0) } else { old(g)@.my_sent }),
    {
        self.call_raw(h, g, c, m);
        proof { lemma_facts(*h, g@.gs, *c); }
    }
}
impl UpTb {
    /// merge tells a sibling to stop (the sibling's own thread keeps running meanwhile)
    pub fn call<T>(&self, h: &mut Heap, g: &mut Ghost<G<T>>, c: &Cap, m: Message<Never, Never>)
        requires
            inv_t(*old(h), old(g)@.gs, *c), /* @C18 the counters count the members that greeted / completed, the greeting and completion tickets are unique, and a counted member delivers nothing more -- after every step of this thread */
            guar(old(g)@.snap, old(g)@.gsnap, *old(h), old(g)@.gs), /* @C18 a step of this thread only moves the counters forward and only touches its own member's entries and tickets */
        ensures
            inv_t(*final(h), final(g)@.gs, *c), facts(*final(h), final(g)@.gs, *c), rely(*old(h), old(g)@.gs, *final(h), final(g)@.gs),
            synced(*final(h), final(g)@), final(g)@.my_sent == old(g)@.my_sent,
    { interfere(h, g, c); }
}

/// C18 (merge) as consequences of the invariant
pub proof fn lemma_c18(h: Heap, s: Gs, c: Cap)
    requires inv_t(h, s, c),
    ensures
        s.greeted <= 1, (s.greet_tix == 0 && h.start_count >= 1 ==> s.greeted == 1),   // greeted exactly once
        s.completed + s.errd <= 1,                                                       // completion exactly once
        (s.end_tix == 0 && h.end_count == c.n ==> s.completed == 1),
{
    lemma_facts(h, s, c);
}

/// one delivery of member `i`, on that member's thread
//@split Handshake Data Error Terminate
#[verifier::loop_isolation(false)]
pub fn merge__source_talkback_T<T>(h: &mut Heap, g: &mut Ghost<G<T>>, c: &Cap, i: usize, message: Message<T, UpTb>)
    requires
        inv_t(*old(h), old(g)@.gs, *c), facts(*old(h), old(g)@.gs, *c), synced(*old(h), old(g)@),
        old(g)@.gs.me == i, i < c.n,
        !(message is Pull),
        old(g)@.gs.my_greet == 0 && old(g)@.gs.my_end == 0 && old(g)@.my_sent.len() == 0,
        // what the member's own protocol gives (set up by the member's thread before it calls):
        message is Handshake ==> !old(g)@.gs.started[i as int] && !old(g)@.gs.mdone[i as int] && !old(g)@.gs.inflight[i as int],
        message is Data ==> old(g)@.gs.started[i as int] && old(g)@.gs.inflight[i as int],
        message is Terminate ==> old(g)@.gs.started[i as int] && old(g)@.gs.mdone[i as int] && !old(g)@.gs.counted[i as int] && old(g)@.gs.failer != i,
        message is Error ==> old(g)@.gs.started[i as int] && old(g)@.gs.mdone[i as int] && !old(g)@.gs.counted[i as int] && old(g)@.gs.failer == i && old(g)@.gs.errd == 0,
    ensures
        inv_t(*final(h), final(g)@.gs, *c), /* @C18 the counters count the members that greeted / completed, the greeting and completion tickets are unique, and a counted member delivers nothing more -- after every step of this thread */
        guar(final(g)@.snap, final(g)@.gsnap, *final(h), final(g)@.gs), /* @C18 a step of this thread only moves the counters forward and only touches its own member's entries and tickets */
        final(g)@.gs.my_greet == 0, /* @C18 the thread that holds the greeting ticket greets the sink before it returns */
        final(g)@.gs.my_end == 0, /* @C18 the thread that holds the completion ticket completes the sink before it returns */
        message is Handshake ==> final(g)@.gs.started[i as int] || final(h).ended, /* @C18 a member that greeted is counted, unless the output was already over (a member failed) */
        message is Terminate ==> final(g)@.gs.counted[i as int], /* @C18 a member that completed is counted */
        message is Data ==> final(g)@.my_sent =~= seq![message->Data_0], /* @C18 merge delivers every datum exactly once */
        !(message is Data) ==> final(g)@.my_sent.len() == 0, /* @C18 merge delivers every datum exactly once */
        message is Error ==> final(g)@.gs.errd == 1, /* @C18 a member's error is forwarded */
{
    let n = c.n; let sink = SinkH {}; let talkback = Tok_sink_talkback {};
    let source_talkbacks = Cell_source_talkbacks { n: c.n }; let start_count = Cell_start_count {}; let end_count = Cell_end_count {}; let ended = Cell_ended {};
    BODY!("source_talkback");
}
INVARIANT!("source_talkback", 0) {
    invariant
        n == c.n, source_talkbacks.n == c.n, i < c.n, message is Error,
        inv_t(*h, g@.gs, *c), guar(g@.snap, g@.gsnap, *h, g@.gs), own_same(old(g)@.gs, g@.gs),
        g@.gs.errd == 0, g@.my_sent.len() == 0,
}
