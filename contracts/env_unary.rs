// ===================================================================================================
// Most general conformant peers of a unary operator (one upstream, one sink).  DESIGN §2.2-2.5.
// Verified code, not axioms: each peer applies its event to the ghost state and then performs any
// finite sequence of protocol-admissible calls into the operator's own handlers.
// Text parameters: $OP operator name, $TP type parameters, $G ghost type, $HEAP heap type,
// $I upstream data type, $O downstream data type.
// Profile switch `c.pullable` (profile P): the upstream emits Data only against an outstanding Pull,
// the sink pulls only when it has no Pull outstanding.  Profile R is `!c.pullable`.
// ===================================================================================================
#[derive(Clone, Copy)] pub struct UpTb {}
#[derive(Clone, Copy)] pub struct UpSrc {}
#[derive(Clone, Copy)] pub struct SinkH {}
impl UpSrc { pub fn into(self) -> (r: Self) ensures r == self { self } }

impl<$TP> Handle<$G, Message<$O, Tok_sink_talkback>> for SinkH {
    type HH = $HEAP;
    type CC = Cap;
    open spec fn gate(&self, k: int, h: $HEAP, g: $G, c: Cap, m: Message<$O, Tok_sink_talkback>) -> bool {
        if k == $GATE_NO_PULL_DOWN { !(m is Pull) }
        else if k == $GATE_GREET_ONCE { m is Handshake ==> g.dn.phase == Dn::NotGreeted }
        else if k == $GATE_GREET_FIRST { !(m is Handshake) ==> g.dn.phase != Dn::NotGreeted }
        else if k == $GATE_AFTER_TERM { !(m is Handshake) ==> g.dn.phase != Dn::EndedByUs }
        else if k == $GATE_AFTER_DISPOSAL { !(m is Handshake) ==> g.dn.phase != Dn::EndedBySink }
        else if k == $GATE_NO_ORPHAN { m is Terminate || m is Error ==> g.up.phase != Up::Live }
        else if k == $GATE_UNREQUESTED { m is Data && c.pullable ==> g.dn.data.len() < g.dn.pulls }
        else { true }
    }
    open spec fn post(&self, g: $G, m: Message<$O, Tok_sink_talkback>) -> $G { $GNAME { dn: dn_send(g.dn, m), ..g } }
    open spec fn needs_inv(&self, g: $G, m: Message<$O, Tok_sink_talkback>) -> bool { !(m is Terminate || m is Error) }
}
impl SinkH {
    /// the operator delivers `m` to its sink
    #[verifier::exec_allows_no_decreases_clause]
    pub fn call<$TP>(&self, h: &mut $HEAP, g: &mut Ghost<$G>, c: &Cap, m: Message<$O, Tok_sink_talkback>)
        requires
            GATES!(self, *old(h), old(g)@, *c, m),
            self.needs_inv(old(g)@, m) ==> INV!(*old(h), self.post(old(g)@, m), *c),
        ensures
            self.needs_inv(old(g)@, m) ==> INV!(*final(h), final(g)@, *c),
            mono(*old(h), self.post(old(g)@, m), *final(h), final(g)@),
            sink_rel(*old(h), self.post(old(g)@, m), *final(h), final(g)@, *c),
            !self.needs_inv(old(g)@, m) ==> *final(h) == *old(h) && final(g)@ == self.post(old(g)@, m),
    {
        proof { g@ = self.post(g@, m); }
        if matches!(m, Message::Terminate | Message::Error(_)) { return; }  // a terminated sink is silent
        let ghost h0 = *h; let ghost g0 = g@;
        loop
            invariant
                INV!(*h, g@, *c),
                mono(h0, g0, *h, g@), sink_rel(h0, g0, *h, g@, *c),
        {
            if nondet_bool() { break; }
            if ghost_test(Ghost(g@.dn.phase == Dn::Live)) {
                if nondet_bool() {
                    if !c.pullable || ghost_test(Ghost(g@.dn.pulls <= g@.dn.data.len())) {
                        $OP__sink_talkback(h, g, c, Message::Pull);
                    }
                }
                else if nondet_bool() { $OP__sink_talkback(h, g, c, Message::Terminate); }
                else { $OP__sink_talkback(h, g, c, Message::Error(nondet_u64())); }
            }
        }
    }
}
impl<$TP> Handle<$G, Message<Never, Never>> for UpTb {
    type HH = $HEAP;
    type CC = Cap;
    open spec fn gate(&self, k: int, h: $HEAP, g: $G, c: Cap, m: Message<Never, Never>) -> bool {
        if k == $GATE_UP_KIND { m is Pull || m is Terminate || m is Error }
        else if k == $GATE_UP_GREETED { g.up.phase != Up::Idle && g.up.phase != Up::Subscribing }
        else if k == $GATE_UP_PULL_LIVE { m is Pull ==> !up_over(g.up.phase) }
        else if k == $GATE_UP_TERM_ONCE { !(m is Pull) ==> g.up.phase != Up::EndedByUs }
        else if k == $GATE_UP_TERM_SELF { !(m is Pull) ==> g.up.phase != Up::EndedBySelf && g.up.phase != Up::ErroredBySelf }
        else { true }
    }
    open spec fn post(&self, g: $G, m: Message<Never, Never>) -> $G { $GNAME { up: up_send(g.up, m), ..g } }
    open spec fn needs_inv(&self, g: $G, m: Message<Never, Never>) -> bool { m is Pull }
}
impl UpTb {
    /// the operator talks to its upstream on the talkback it was greeted with
    #[verifier::exec_allows_no_decreases_clause]
    pub fn call<$TP>(&self, h: &mut $HEAP, g: &mut Ghost<$G>, c: &Cap, m: Message<Never, Never>)
        requires
            GATES!(self, *old(h), old(g)@, *c, m),
            self.needs_inv(old(g)@, m) ==> INV!(*old(h), self.post(old(g)@, m), *c),
        ensures
            self.needs_inv(old(g)@, m) ==> INV!(*final(h), final(g)@, *c),
            self.needs_inv(old(g)@, m) ==> mono(*old(h), self.post(old(g)@, m), *final(h), final(g)@),
            self.needs_inv(old(g)@, m) ==> up_rel(*old(h), self.post(old(g)@, m), *final(h), final(g)@, *c),
            !self.needs_inv(old(g)@, m) ==> *final(h) == *old(h) && final(g)@ == self.post(old(g)@, m),
    {
        proof { g@ = self.post(g@, m); }
        if matches!(m, Message::Terminate | Message::Error(_)) { return; }   // a terminated source is silent
        up_events(h, g, c);
    }
}
/// any finite sequence of admissible upstream events
#[verifier::exec_allows_no_decreases_clause]
pub fn up_events<$TP>(h: &mut $HEAP, g: &mut Ghost<$G>, c: &Cap)
    requires
        INV!(*old(h), old(g)@, *c),
    ensures
        INV!(*final(h), final(g)@, *c),
        mono(*old(h), old(g)@, *final(h), final(g)@), up_rel(*old(h), old(g)@, *final(h), final(g)@, *c),
{
    let ghost h0 = *h; let ghost g0 = g@;
    loop
        invariant
            INV!(*h, g@, *c),
            mono(h0, g0, *h, g@), up_rel(h0, g0, *h, g@, *c),
    {
        if nondet_bool() { break; }
        if ghost_test(Ghost(g@.up.phase == Up::Live)) {
            if nondet_bool() {
                if !c.pullable || ghost_test(Ghost(g@.up.data.len() < g@.up.pulls)) {
                    $OP__source_talkback(h, g, c, Message::Data(nondet::<$I>()));
                }
            }
            else if nondet_bool() { $OP__source_talkback(h, g, c, Message::Terminate); }
            else { $OP__source_talkback(h, g, c, Message::Error(nondet_u64())); }
        }
    }
}
impl<$TP> Handle<$G, Message<Never, Tok_source_talkback>> for UpSrc {
    type HH = $HEAP;
    type CC = Cap;
    open spec fn gate(&self, k: int, h: $HEAP, g: $G, c: Cap, m: Message<Never, Tok_source_talkback>) -> bool {
        if k == $GATE_SUB_KIND { m is Handshake }
        else if k == $GATE_SUB_ONCE { g.up.phase == Up::Idle }
        else if k == $GATE_SUB_OVER { !dn_over(g.dn.phase) }
        else { true }
    }
    open spec fn post(&self, g: $G, m: Message<Never, Tok_source_talkback>) -> $G { $GNAME { up: UpLink { phase: Up::Subscribing, ..g.up }, ..g } }
    open spec fn needs_inv(&self, g: $G, m: Message<Never, Tok_source_talkback>) -> bool { true }
}
impl UpSrc {
    /// the operator subscribes to its upstream source
    #[verifier::exec_allows_no_decreases_clause]
    pub fn call<$TP>(&self, h: &mut $HEAP, g: &mut Ghost<$G>, c: &Cap, m: Message<Never, Tok_source_talkback>)
        requires
            GATES!(self, *old(h), old(g)@, *c, m),
            self.needs_inv(old(g)@, m) ==> INV!(*old(h), self.post(old(g)@, m), *c),
        ensures
            INV!(*final(h), final(g)@, *c),
            mono(*old(h), self.post(old(g)@, m), *final(h), final(g)@),
    {
        proof { g@ = self.post(g@, m); }
        // a conformant source greets inside the subscribing call ...
        $OP__source_talkback(h, g, c, Message::Handshake(UpTb {}));
        // ... and may emit, end or fail before returning
        up_events(h, g, c);
    }
}

/// Every history of one subscription with conformant peers is an execution of `world`.
#[verifier::exec_allows_no_decreases_clause]
pub fn world<$TP>(c: &Cap)
    requires cap_ok(*c)
{
    let mut h: $HEAP = fresh_heap();
    let mut g: Ghost<$G> = Ghost(g_init());
    $OP__subscribe(&mut h, &mut g, c, Message::Handshake(SinkH {}));
    loop
        invariant
            INV!(h, g@, *c),
            cap_ok(*c),
    {
        if nondet_bool() {
            up_events(&mut h, &mut g, c);
        } else if ghost_test(Ghost(g@.dn.phase == Dn::Live)) {
            if nondet_bool() {
                if !c.pullable || ghost_test(Ghost(g@.dn.pulls <= g@.dn.data.len())) {
                    $OP__sink_talkback(&mut h, &mut g, c, Message::Pull);
                }
            }
            else if nondet_bool() { $OP__sink_talkback(&mut h, &mut g, c, Message::Terminate); }
            else { $OP__sink_talkback(&mut h, &mut g, c, Message::Error(nondet_u64())); }
        }
    }
}
