// ===================================================================================================
// Most general conformant peers of a unary operator (one upstream, one sink).  DESIGN 2.2-2.5.
// Verified code, not axioms: each peer applies its event to the ghost state and then performs any
// finite sequence of protocol-admissible calls into the operator's own handlers.
// Text parameters: $OP operator name, $TP type parameters, $G ghost type, $GNAME its constructor,
// $HEAP heap type, $I upstream data type, $O downstream data type.
// Profile switch `c.pullable` (profile P): the upstream emits Data only against an outstanding Pull,
// the sink pulls only when it has no Pull outstanding.  Profile R is `!c.pullable`.
// ===================================================================================================
//@include env_dn.rs OP=$OP TP="$TP" G="$G" GNAME=$GNAME HEAP=$HEAP O=$O ORPHAN="g.up.phase != Up::Live" QUIET="g.up.phase != Up::Subscribing" LITE=false SINKGATE=true
//@include env_up.rs OP=$OP TP="$TP" G="$G" GNAME=$GNAME HEAP=$HEAP I=$I SFX="" UPF=up EVGUARD=true SUBPOST=true SUBPRE=true LATE=true
/// Every history of one subscription with conformant peers is an execution of `world`.
#[verifier::exec_allows_no_decreases_clause]
pub fn world<$TP>(c: &Cap)
    requires cap_ok(*c)
{
    let mut h: $HEAP = fresh_heap();
    let mut g: Ghost<$G> = Ghost(g_init());
    $OP__subscribe(&mut h, &mut g, c, Message::Handshake(SinkH {}));
    loop
        invariant
            INV!(h, g@, *c),
            cap_ok(*c),
    {
        if nondet_bool() {
            if ghost_test(Ghost(g@.up.phase == Up::Subscribing)) {
                $OP__source_talkback(&mut h, &mut g, c, Message::Handshake(UpTb {}));   // a late greeting
            }
            up_events(&mut h, &mut g, c);
        } else if ghost_test(Ghost(g@.dn.phase == Dn::Live)) {
            if nondet_bool() {
                if !c.pullable || ghost_test(Ghost(g@.dn.pulls <= g@.dn.data.len())) {
                    $OP__sink_talkback(&mut h, &mut g, c, Message::Pull);
                }
            }
            else if nondet_bool() { $OP__sink_talkback(&mut h, &mut g, c, Message::Terminate); }
            else { $OP__sink_talkback(&mut h, &mut g, c, Message::Error(nondet_u64())); }
        }
    }
}
