// ===================================================================================================
// Most general conformant peers of a unary operator (one upstream, one sink).  DESIGN §2.2-2.5.
// Verified code, not axioms: each peer applies its event to the ghost state and then performs any
// finite sequence of protocol-admissible calls into the operator's own handlers.
// Text parameters: $OP operator name, $TP type parameters, $G ghost type, $HEAP heap type,
// $I upstream data type, $O downstream data type.
// Profile switch `c.pullable` (profile P): the upstream emits Data only against an outstanding Pull,
// the sink pulls only when it has no Pull outstanding.  Profile R is `!c.pullable`.
// ===================================================================================================
#[derive(Clone, Copy)] pub struct UpTb {}
#[derive(Clone, Copy)] pub struct UpSrc {}
#[derive(Clone, Copy)] pub struct SinkH {}
impl UpSrc { pub fn into(self) -> (r: Self) ensures r == self { self } }

impl SinkH {
    /// the operator delivers `m` to its sink
    #[verifier::exec_allows_no_decreases_clause]
    pub fn call<$TP>(&self, h: &mut $HEAP, g: &mut Ghost<$G>, c: &Cap, m: Message<$O, Tok_sink_talkback>)
        requires
            !(m is Pull), /* @C04 an operator never pulls its sink */
            m is Handshake ==> old(g)@.dn.phase == Dn::NotGreeted, /* @C01 greet-once */
            !(m is Handshake) ==> old(g)@.dn.phase != Dn::NotGreeted, /* @C01 greet-first */
            !(m is Handshake) ==> old(g)@.dn.phase != Dn::EndedByUs, /* @C02 nothing after termination */
            !(m is Handshake) ==> old(g)@.dn.phase != Dn::EndedBySink, /* @C03 nothing after disposal */
            m is Terminate || m is Error ==> old(g)@.up.phase != Up::Live, /* @C04 no live upstream left behind */
            m is Data && c.pullable ==> old(g)@.dn.data.len() < old(g)@.dn.pulls, /* @C14 no unrequested data */
            !(m is Terminate || m is Error) ==> INV!(*old(h), $GNAME { dn: dn_send(old(g)@.dn, m), ..old(g)@ }, *c),
        ensures
            !(m is Terminate || m is Error) ==> INV!(*final(h), final(g)@, *c),
            mono(*old(h), $GNAME { dn: dn_send(old(g)@.dn, m), ..old(g)@ }, *final(h), final(g)@),
            sink_rel(*old(h), $GNAME { dn: dn_send(old(g)@.dn, m), ..old(g)@ }, *final(h), final(g)@, *c),
            (m is Terminate || m is Error) ==> *final(h) == *old(h) && final(g)@ == ($GNAME { dn: dn_send(old(g)@.dn, m), ..old(g)@ }),
    {
        proof { g@ = $GNAME { dn: dn_send(g@.dn, m), ..g@ }; }
        if matches!(m, Message::Terminate | Message::Error(_)) { return; }  // a terminated sink is silent
        let ghost h0 = *h; let ghost g0 = g@;
        loop
            invariant
                INV!(*h, g@, *c),
                mono(h0, g0, *h, g@), sink_rel(h0, g0, *h, g@, *c),
        {
            if nondet_bool() { break; }
            if ghost_test(Ghost(g@.dn.phase == Dn::Live)) {
                if nondet_bool() {
                    if !c.pullable || ghost_test(Ghost(g@.dn.pulls <= g@.dn.data.len())) {
                        $OP__sink_talkback(h, g, c, Message::Pull);
                    }
                }
                else if nondet_bool() { $OP__sink_talkback(h, g, c, Message::Terminate); }
                else { $OP__sink_talkback(h, g, c, Message::Error(nondet_u64())); }
            }
        }
    }
}
impl UpTb {
    /// the operator talks to its upstream on the talkback it was greeted with
    #[verifier::exec_allows_no_decreases_clause]
    pub fn call<$TP>(&self, h: &mut $HEAP, g: &mut Ghost<$G>, c: &Cap, m: Message<Never, Never>)
        requires
            m is Pull || m is Terminate || m is Error, /* @C04 only Pull/Terminate/Error go upstream */
            old(g)@.up.phase != Up::Idle && old(g)@.up.phase != Up::Subscribing, /* @C04 nothing before the upstream greeted */
            m is Pull ==> old(g)@.up.phase == Up::Live, /* @C04 no Pull to an upstream that is over */
            !(m is Pull) ==> old(g)@.up.phase != Up::EndedByUs, /* @C04 upstream terminated at most once */
            !(m is Pull) ==> old(g)@.up.phase != Up::EndedBySelf && old(g)@.up.phase != Up::ErroredBySelf, /* @C04 no termination of an upstream that ended by itself */
            m is Pull ==> INV!(*old(h), $GNAME { up: up_send(old(g)@.up, m), ..old(g)@ }, *c),
        ensures
            m is Pull ==> INV!(*final(h), final(g)@, *c),
            m is Pull ==> mono(*old(h), $GNAME { up: up_send(old(g)@.up, m), ..old(g)@ }, *final(h), final(g)@),
            m is Pull ==> up_rel(*old(h), $GNAME { up: up_send(old(g)@.up, m), ..old(g)@ }, *final(h), final(g)@, *c),
            !(m is Pull) ==> *final(h) == *old(h) && final(g)@ == ($GNAME { up: up_send(old(g)@.up, m), ..old(g)@ }),
    {
        proof { g@ = $GNAME { up: up_send(g@.up, m), ..g@ }; }
        if matches!(m, Message::Terminate | Message::Error(_)) { return; }   // a terminated source is silent
        up_events(h, g, c);
    }
}
/// any finite sequence of admissible upstream events
#[verifier::exec_allows_no_decreases_clause]
pub fn up_events<$TP>(h: &mut $HEAP, g: &mut Ghost<$G>, c: &Cap)
    requires
        INV!(*old(h), old(g)@, *c),
    ensures
        INV!(*final(h), final(g)@, *c),
        mono(*old(h), old(g)@, *final(h), final(g)@), up_rel(*old(h), old(g)@, *final(h), final(g)@, *c),
{
    let ghost h0 = *h; let ghost g0 = g@;
    loop
        invariant
            INV!(*h, g@, *c),
            mono(h0, g0, *h, g@), up_rel(h0, g0, *h, g@, *c),
    {
        if nondet_bool() { break; }
        if ghost_test(Ghost(g@.up.phase == Up::Live)) {
            if nondet_bool() {
                if !c.pullable || ghost_test(Ghost(g@.up.data.len() < g@.up.pulls)) {
                    $OP__source_talkback(h, g, c, Message::Data(nondet::<$I>()));
                }
            }
            else if nondet_bool() { $OP__source_talkback(h, g, c, Message::Terminate); }
            else { $OP__source_talkback(h, g, c, Message::Error(nondet_u64())); }
        }
    }
}
impl UpSrc {
    /// the operator subscribes to its upstream source
    #[verifier::exec_allows_no_decreases_clause]
    pub fn call<$TP>(&self, h: &mut $HEAP, g: &mut Ghost<$G>, c: &Cap, m: Message<Never, Tok_source_talkback>)
        requires
            m is Handshake, /* @C04 a source is only ever greeted */
            old(g)@.up.phase == Up::Idle, /* @C04 upstream subscribed at most once */
            !dn_over(old(g)@.dn.phase), /* @C04 nothing subscribed once the output is over */
            INV!(*old(h), $GNAME { up: UpLink { phase: Up::Subscribing, ..old(g)@.up }, ..old(g)@ }, *c),
        ensures
            INV!(*final(h), final(g)@, *c),
            mono(*old(h), $GNAME { up: UpLink { phase: Up::Subscribing, ..old(g)@.up }, ..old(g)@ }, *final(h), final(g)@),
    {
        proof { g@ = $GNAME { up: UpLink { phase: Up::Subscribing, ..g@.up }, ..g@ }; }
        // a conformant source greets inside the subscribing call ...
        $OP__source_talkback(h, g, c, Message::Handshake(UpTb {}));
        // ... and may emit, end or fail before returning
        up_events(h, g, c);
    }
}

/// Every history of one subscription with conformant peers is an execution of `world`.
#[verifier::exec_allows_no_decreases_clause]
pub fn world<$TP>(c: &Cap)
    requires cap_ok(*c)
{
    let mut h: $HEAP = fresh_heap();
    let mut g: Ghost<$G> = Ghost(g_init());
    $OP__subscribe(&mut h, &mut g, c, Message::Handshake(SinkH {}));
    loop
        invariant
            INV!(h, g@, *c),
            cap_ok(*c),
    {
        if nondet_bool() {
            up_events(&mut h, &mut g, c);
        } else if ghost_test(Ghost(g@.dn.phase == Dn::Live)) {
            if nondet_bool() {
                if !c.pullable || ghost_test(Ghost(g@.dn.pulls <= g@.dn.data.len())) {
                    $OP__sink_talkback(&mut h, &mut g, c, Message::Pull);
                }
            }
            else if nondet_bool() { $OP__sink_talkback(&mut h, &mut g, c, Message::Terminate); }
            else { $OP__sink_talkback(&mut h, &mut g, c, Message::Error(nondet_u64())); }
        }
    }
}
