// ===================================================================================================
// for_each(f): contract template (a sink).  Bodies are extracted from /repo/src/for_each.rs.
// ===================================================================================================
//@op for_each
//@properties C04 C06 C13 C14 C17 C20
//@ignore ctor = Tok_apply {}
//@token for_each => Tok_source_talkback {}
//@heap Heap
//@tp T
//@celltp
//@nogate f

/// `dn` is unused (for_each has no downstream); it stays NotGreeted and only lets the shared upstream
/// environment be reused unchanged.
pub struct G<T> { pub dn: DnLink<T>, pub up: UpLink<T>, pub f_args: Seq<T> }
pub struct Cap { pub pullable: bool }
pub struct Heap { pub talkback: Option<UpTb>, pub alloc_talkback: bool }
#[derive(Clone, Copy)] pub struct Tok_source_talkback {}
//@cell talkback: Option<UpTb> = swap_option

/// the user's closure: called for its effect; the ghost records the argument sequence
#[derive(Clone, Copy)] pub struct UserF {}
impl UserF {
    #[verifier::external_body]
    pub fn call<T>(&self, h: &mut Heap, g: &mut Ghost<G<T>>, c: &Cap, x: T)
        ensures *final(h) == *old(h), final(g)@ == (G { f_args: old(g)@.f_args.push(x), ..old(g)@ }),
    { unimplemented!() }
}

pub open spec fn cap_ok(c: Cap) -> bool { true }
pub open spec fn g_init<T>() -> G<T> { G { dn: dn_init(), up: up_init(), f_args: Seq::empty() } }
#[verifier::external_body] pub fn fresh_heap() -> (h: Heap) ensures !h.alloc_talkback { unimplemented!() }

//@invpart safe @C17 the upstream talkback is stored before it is used
//@invpart data @C06 f is called on exactly the data received, in order
//@invpart pull @C14,C06 for_each keeps exactly one Pull outstanding while its source is live
//@invpart term @C04 for_each never terminates its source
pub open spec fn inv_safe<T>(h: Heap, g: G<T>, c: Cap) -> bool {
    &&& (up_greeted(g.up.phase) ==> h.talkback is Some)
    &&& g.dn.phase == Dn::NotGreeted
}
pub open spec fn inv_data<T>(h: Heap, g: G<T>, c: Cap) -> bool {
    g.f_args =~= g.up.data
}
pub open spec fn inv_pull<T>(h: Heap, g: G<T>, c: Cap) -> bool {
    &&& (up_greeted(g.up.phase) ==> g.up.pulls == g.up.data.len() + 1)
    &&& (!up_greeted(g.up.phase) ==> g.up.pulls == 0 && g.up.data.len() == 0)
}
pub open spec fn inv_term<T>(h: Heap, g: G<T>, c: Cap) -> bool {
    g.up.terms == 0 && g.up.phase != Up::EndedByUs
}
pub open spec fn mono<T>(a: Heap, ga: G<T>, b: Heap, gb: G<T>) -> bool {
    &&& upl_mono(ga.up, gb.up)
    &&& (a.alloc_talkback ==> b.alloc_talkback)
}
pub open spec fn up_rel<T>(a: Heap, ga: G<T>, b: Heap, gb: G<T>, c: Cap) -> bool { true }

//@include env_up.rs OP=for_each TP=T G=G<T> GNAME=G HEAP=Heap I=T SFX="" UPF=up EVGUARD=true SUBPOST=true SUBPRE=true LATE=true

/// `for_each(f)(source)`: the subscription itself
#[verifier::exec_allows_no_decreases_clause]
pub fn for_each__apply<T>(h: &mut Heap, g: &mut Ghost<G<T>>, c: &Cap, source: UpSrc)
    requires
        old(g)@ == g_init::<T>(),
        !old(h).alloc_talkback,
    ensures
        INV!(*final(h), final(g)@, *c),
        final(h).alloc_talkback, /* @C13 every cell is allocated per subscription */
{
    let f = UserF {};
    BODY!("apply");
}

#[verifier::exec_allows_no_decreases_clause]
pub fn for_each__source_talkback<T>(h: &mut Heap, g: &mut Ghost<G<T>>, c: &Cap, message: Message<T, UpTb>)
    requires
        INV!(*old(h), old(g)@, *c),
        !(message is Pull),
        message is Handshake ==> old(g)@.up.phase == Up::Subscribing,
        !(message is Handshake) ==> old(g)@.up.phase == Up::Live,
        message is Data && c.pullable ==> old(g)@.up.data.len() < old(g)@.up.pulls, // profile P
    ensures
        INV!(*final(h), final(g)@, *c),
        mono(*old(h), old(g)@, *final(h), final(g)@), /* @C04 phases only move forward */
        up_rel(*old(h), old(g)@, *final(h), final(g)@, *c),
{
    let f = UserF {}; let talkback = Cell_talkback {};
    proof { g@ = G { up: up_recv(g@.up, message), ..g@ }; }
    BODY!("for_each");
}

/// Every history of one for_each subscription with a conformant source is an execution of `world`.
#[verifier::exec_allows_no_decreases_clause]
pub fn world<T>(c: &Cap)
    requires cap_ok(*c)
{
    let mut h: Heap = fresh_heap();
    let mut g: Ghost<G<T>> = Ghost(g_init());
    for_each__apply(&mut h, &mut g, c, UpSrc {});
    loop
        invariant
            INV!(h, g@, *c),
    {
        if ghost_test(Ghost(g@.up.phase == Up::Subscribing)) {
            for_each__source_talkback(&mut h, &mut g, c, Message::Handshake(UpTb {}));   // a late greeting
        }
        up_events(&mut h, &mut g, c);
    }
}
