// ===================================================================================================
// Most general conformant upstream sources of an n-ary operator (members 0..c.n).  DESIGN 2.2-2.4.
// Ghost: g.ups: Seq<UpLink<$I>> of length c.n.  Text parameters: $OP, $TP, $G, $GNAME, $HEAP, $I.
// First-level restriction: during a call to member i only member i answers directly (distinct members
// are independent sources).  Profile P (c.pullable): a member emits Data, its end or its failure only
// against an outstanding Pull.
// ===================================================================================================
#[derive(Clone, Copy)] pub struct UpTb { pub i: usize }
#[derive(Clone, Copy)] pub struct UpSrc { pub i: usize }
impl UpSrc { pub fn into(self) -> (r: Self) ensures r == self { self } }
/// the boxed slice of member sources
#[derive(Clone, Copy)] pub struct Sources { pub n: usize }
impl Sources {
    pub fn len(&self) -> (r: usize) ensures r == self.n { self.n }
    /// `sources[i]`: indexing panics when out of bounds
    pub fn at(&self, i: usize) -> (r: UpSrc) requires i < self.n ensures r.i == i { UpSrc { i } }
}
pub open spec fn set_up<$TP>(g: $G, i: int, l: UpLink<$I>) -> $G { $GNAME { ups: g.ups.update(i, l), ..g } }

impl<$TP> Handle<$G, Message<Never, Never>> for UpTb {
    type HH = $HEAP;
    type CC = Cap;
    open spec fn gate(&self, k: int, h: $HEAP, g: $G, c: Cap, m: Message<Never, Never>) -> bool {
        if k == $GATE_UP_KIND { m is Pull || m is Terminate || m is Error }
        else if k == $GATE_UP_GREETED { $LITE || (self.i < g.ups.len() && up_greeted(g.ups[self.i as int].phase)) }
        else if k == $GATE_UP_PULL_LIVE { $LITE || (self.i < g.ups.len() && (m is Pull && !dn_over(g.dn.phase) ==> g.ups[self.i as int].phase != Up::EndedByUs)) }
        else if k == $GATE_UP_PULL_SELF { $LITE || (self.i < g.ups.len() && (m is Pull && !dn_over(g.dn.phase) ==> g.ups[self.i as int].phase != Up::EndedBySelf && g.ups[self.i as int].phase != Up::ErroredBySelf)) }
        else if k == $GATE_UP_PULL_OVER { $LITE || (self.i < g.ups.len() && (m is Pull && dn_over(g.dn.phase) ==> !up_over(g.ups[self.i as int].phase))) }
        else if k == $GATE_UP_TERM_ONCE { $LITE || (self.i < g.ups.len() && (!(m is Pull) ==> g.ups[self.i as int].phase != Up::EndedByUs)) }
        else if k == $GATE_UP_TERM_SELF { $LITE || (self.i < g.ups.len() && (!(m is Pull) ==> g.ups[self.i as int].phase != Up::EndedBySelf && g.ups[self.i as int].phase != Up::ErroredBySelf)) }
        else { uptb_gate(*self, k, h, g, c, m) }
    }
    /// (LITE units switch the upstream-side clauses off; there a member that is already over ignores what it is sent)
    open spec fn post(&self, g: $G, m: Message<Never, Never>) -> $G { if $LITE && (self.i >= g.ups.len() || up_over(g.ups[self.i as int].phase) || !up_greeted(g.ups[self.i as int].phase)) { g } else { set_up(g, self.i as int, up_send(g.ups[self.i as int], m)) } }
    open spec fn needs_inv(&self, g: $G, m: Message<Never, Never>, p: int) -> bool { m is Pull }
    open spec fn extra(&self, h: Self::HH, g: $G, c: Self::CC, m: Message<Never, Never>) -> bool { true }
}
impl UpTb {
    /// the operator talks to member `self.i` on the talkback it was greeted with
    #[verifier::exec_allows_no_decreases_clause]
    pub fn call<$TP>(&self, h: &mut $HEAP, g: &mut Ghost<$G>, c: &Cap, m: Message<Never, Never>)
        requires
            GATES!(self, *old(h), old(g)@, *c, m),
            self.extra(*old(h), old(g)@, *c, m),
            self.needs_inv(old(g)@, m, $P) ==> INV!(*old(h), self.post(old(g)@, m), *c),
        ensures
            self.needs_inv(old(g)@, m, $P) ==> INV!(*final(h), final(g)@, *c),
            self.needs_inv(old(g)@, m, 0) ==> mono(*old(h), self.post(old(g)@, m), *final(h), final(g)@),
            self.needs_inv(old(g)@, m, 0) ==> up_rel(self.i as int, *old(h), self.post(old(g)@, m), *final(h), final(g)@, *c),
            !self.needs_inv(old(g)@, m, 0) ==> *final(h) == *old(h) && final(g)@ == self.post(old(g)@, m),
    {
        proof { g@ = self.post(g@, m); }
        if matches!(m, Message::Terminate | Message::Error(_)) { return; }   // a terminated source is silent
        up_events_of(self.i, h, g, c);
    }
}
/// any finite sequence of admissible events of member `i`
#[verifier::exec_allows_no_decreases_clause]
pub fn up_events_of<$TP>(i: usize, h: &mut $HEAP, g: &mut Ghost<$G>, c: &Cap)
    requires
        INV!(*old(h), old(g)@, *c),
        i < c.n,
    ensures
        INV!(*final(h), final(g)@, *c),
        mono(*old(h), old(g)@, *final(h), final(g)@), up_rel(i as int, *old(h), old(g)@, *final(h), final(g)@, *c),
{
    let ghost h0 = *h; let ghost g0 = g@;
    loop
        invariant
            INV!(*h, g@, *c),
            mono(h0, g0, *h, g@), up_rel(i as int, h0, g0, *h, g@, *c),
            i < c.n,
    {
        if nondet_bool() { break; }
        let ghost live = g@.ups[i as int].phase == Up::Live && ($LATE || quiet(g@));
        let ghost outstanding = g@.ups[i as int].data.len() < g@.ups[i as int].pulls;
        if ghost_test(Ghost(live)) {
            if !c.pullable || ghost_test(Ghost(outstanding)) {
                if nondet_bool() { $OP__source_talkback(h, g, c, i, Message::Data(nondet::<$I>())); }
                else if nondet_bool() { $OP__source_talkback(h, g, c, i, Message::Terminate); }
                else { $OP__source_talkback(h, g, c, i, Message::Error(nondet_u64())); }
            }
        }
    }
}
impl<$TP> Handle<$G, Message<Never, Tok_source_talkback>> for UpSrc {
    type HH = $HEAP;
    type CC = Cap;
    open spec fn gate(&self, k: int, h: $HEAP, g: $G, c: Cap, m: Message<Never, Tok_source_talkback>) -> bool {
        if k == $GATE_SUB_KIND { m is Handshake }
        else if k == $GATE_SUB_ONCE { $LITE || (self.i < g.ups.len() && g.ups[self.i as int].phase == Up::Idle) }
        else if k == $GATE_SUB_OVER { $LITE || (!dn_over(g.dn.phase)) }
        else if k == $GATE_QUIET { $LITE || $LATE || (quiet(g)) }
        else { upsrc_gate(*self, k, h, g, c, m) }
    }
    open spec fn post(&self, g: $G, m: Message<Never, Tok_source_talkback>) -> $G { set_up(g, self.i as int, UpLink { phase: Up::Subscribing, ..g.ups[self.i as int] }) }
    open spec fn needs_inv(&self, g: $G, m: Message<Never, Tok_source_talkback>, p: int) -> bool { true }
    open spec fn extra(&self, h: Self::HH, g: $G, c: Self::CC, m: Message<Never, Tok_source_talkback>) -> bool { sub_pre(self.i as int, h, self.post(g, m), c, m) }
}
impl UpSrc {
    /// the operator subscribes to member `self.i`
    #[verifier::exec_allows_no_decreases_clause]
    pub fn call<$TP>(&self, h: &mut $HEAP, g: &mut Ghost<$G>, c: &Cap, m: Message<Never, Tok_source_talkback>)
        requires
            GATES!(self, *old(h), old(g)@, *c, m),
            self.extra(*old(h), old(g)@, *c, m),
            self.needs_inv(old(g)@, m, $P) ==> INV!(*old(h), self.post(old(g)@, m), *c),
        ensures
            INV!(*final(h), final(g)@, *c),
            mono(*old(h), self.post(old(g)@, m), *final(h), final(g)@),
            $LATE || quiet(final(g)@),
            sub_rel(self.i as int, *old(h), self.post(old(g)@, m), *final(h), final(g)@, *c),
    {
        proof { g@ = self.post(g@, m); }
        if $LATE && nondet_bool() { return; }   // profile L: the member greets later, at top level
        // a conformant source greets inside the subscribing call ...
        $OP__source_talkback(h, g, c, self.i, Message::Handshake(UpTb { i: self.i }));
        // ... and may emit, end or fail before returning
        up_events_of(self.i, h, g, c);
    }
}
/// no member is between "subscribed" and "greeted"
pub open spec fn quiet<$TP>(g: $G) -> bool { forall|j: int| 0 <= j < g.ups.len() ==> (#[trigger] g.ups[j]).phase != Up::Subscribing }
