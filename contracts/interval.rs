// ===================================================================================================
// interval(period, nursery): contract template (a source driven by a timer task).
// Bodies extracted from /repo/src/interval.rs: subscription closure, the `async move` task, sink talkback.
// The task is lifted as a function; `sleep(period).await` is a yield at which the environment may run
// (the sink may act at top level while the task sleeps).  Real time is not modelled: one completed
// `await` = one elapsed period (DESIGN 5, C16).
// ===================================================================================================
//@op interval
//@properties C01 C02 C03 C13 C16 C17 C20
//@ignore ctor = Tok_interval {}
//@heap Heap
//@tp
//@celltp
//@nogate

pub struct G {
    pub dn: DnLink<usize>,
    pub spawned: bool,        // the task was accepted by the nursery
    pub spawn_failed: bool,   // the nursery refused the task
    pub ticks: nat,           // completed sleeps
}
pub struct Cap { pub pullable: bool }
pub struct Heap { pub i: usize, pub interval_cleared: bool, pub alloc_i: bool, pub alloc_interval_cleared: bool }
#[derive(Clone, Copy)] pub struct Tok_sink_talkback {}
#[derive(Clone, Copy)] pub struct Tok_async_task {}
//@cell i: usize = atomic
//@cell interval_cleared: bool = atomic

#[derive(Clone, Copy)] pub struct Period {}
#[derive(Clone, Copy)] pub struct Nursery {}
pub struct SleepFut {}
impl Nursery {
    /// `Nurse::nurse`: either the task is accepted (it will run later, on the executor) or it is refused
    /// with an error and never runs (assumption 5 of DESIGN 7)
    #[verifier::external_body]
    pub fn nurse(&self, h: &mut Heap, g: &mut Ghost<G>, c: &Cap, task: Tok_async_task) -> (r: Result<(), ErrId>)
        requires !old(g)@.spawned && !old(g)@.spawn_failed,
        ensures *final(h) == *old(h),
            r is Ok ==> final(g)@ == (G { spawned: true, ..old(g)@ }),
            r is Err ==> final(g)@ == (G { spawn_failed: true, ..old(g)@ }),
    { unimplemented!() }
    pub fn sleep(&self, period: Period) -> SleepFut { SleepFut {} }
}
/// fewer than usize::MAX periods elapse (assumption 8 of DESIGN 7: the counter does not wrap)
#[verifier::external_body] pub fn assume_ticks_bounded(g: &Ghost<G>) ensures g@.ticks < usize::MAX { unimplemented!() }
impl SleepFut {
    /// `.await` on the timer: a yield.  While the task sleeps the sink may act at top level any number
    /// of times; then one period has elapsed.
    #[verifier::exec_allows_no_decreases_clause]
    pub fn await_(&self, h: &mut Heap, g: &mut Ghost<G>, c: &Cap)
        requires
            INV!(*old(h), old(g)@, *c),
            old(g)@.spawned,
            old(g)@.dn.phase != Dn::NotGreeted, // the first period elapses after the subscribing call returned (real time is not modelled)
        ensures
            INV!(*final(h), final(g)@, *c),
            mono(*old(h), G { ticks: old(g)@.ticks + 1, ..old(g)@ }, *final(h), final(g)@),
            final(g)@.ticks == old(g)@.ticks + 1, final(g)@.dn.data == old(g)@.dn.data, final(h).i == old(h).i, final(g)@.spawned,
            final(g)@.ticks < usize::MAX,
    {
        let ghost h0 = *h; let ghost g0 = g@;
        loop
            invariant
                INV!(*h, g@, *c),
                mono(h0, g0, *h, g@), g@.ticks == g0.ticks, g@.dn.data == g0.dn.data, h.i == h0.i, g@.spawned,
        {
            if nondet_bool() { break; }
            if ghost_test(Ghost(g@.dn.phase == Dn::Live)) {
                if nondet_bool() { interval__sink_talkback(h, g, c, Message::Pull); }
                else if nondet_bool() { interval__sink_talkback(h, g, c, Message::Terminate); }
                else { interval__sink_talkback(h, g, c, Message::Error(nondet_u64())); }
            }
        }
        proof { g@ = G { ticks: g@.ticks + 1, ..g@ }; }
        assume_ticks_bounded(g);
    }
}

pub open spec fn cap_ok(c: Cap) -> bool { true }
pub open spec fn g_init() -> G { G { dn: dn_init(), spawned: false, spawn_failed: false, ticks: 0 } }
pub open spec fn none_alloc(h: Heap) -> bool { !h.alloc_i && !h.alloc_interval_cleared }
pub open spec fn all_alloc(h: Heap) -> bool { h.alloc_i && h.alloc_interval_cleared }
#[verifier::external_body] pub fn fresh_heap() -> (h: Heap) ensures none_alloc(h) { unimplemented!() }

//@invpart seq @C16 the numbers delivered are 0, 1, 2, .. in order; the counter is the number delivered
//@invpart proto @C01,C16 greeting, disposal flag and spawn outcome agree (a sink is greeted only once its task was accepted)
//@invpart term @C02 at most one terminating message (only the spawn-failure Error)
pub open spec fn inv_seq(h: Heap, g: G, c: Cap) -> bool {
    &&& h.i == g.dn.data.len()
    &&& (forall|j: int| 0 <= j < g.dn.data.len() ==> (#[trigger] g.dn.data[j]) == j)
    &&& g.dn.data.len() <= g.ticks
}
pub open spec fn inv_proto(h: Heap, g: G, c: Cap) -> bool {
    &&& (h.interval_cleared <==> g.dn.phase == Dn::EndedBySink)
    &&& (g.dn.phase == Dn::EndedByUs <==> g.spawn_failed)
    &&& !(g.spawned && g.spawn_failed)
    &&& (g.dn.phase == Dn::Live || g.dn.phase == Dn::EndedBySink ==> g.spawned)
    &&& (g.dn.phase == Dn::NotGreeted ==> g.dn.data.len() == 0 && g.ticks == 0)
}
pub open spec fn inv_term(h: Heap, g: G, c: Cap) -> bool {
    &&& g.dn.terms == (if g.dn.phase == Dn::EndedByUs { 1nat } else { 0nat })
    &&& (g.dn.phase == Dn::EndedByUs ==> g.dn.err is Some && g.dn.data.len() == 0)
}
pub open spec fn mono(a: Heap, ga: G, b: Heap, gb: G) -> bool {
    &&& dnl_mono(ga.dn, gb.dn)
    &&& ga.ticks <= gb.ticks
    &&& (a.interval_cleared ==> b.interval_cleared)
    &&& (ga.spawned ==> gb.spawned) && (ga.spawn_failed ==> gb.spawn_failed)
    &&& (all_alloc(a) ==> all_alloc(b))
}

// ---------------------------------------------------------------------------------------------------
// most general conformant sink (as env_dn.rs; C01's sanctioned exception: the spawn-failure Error)
// ---------------------------------------------------------------------------------------------------
#[derive(Clone, Copy)] pub struct SinkH {}
impl Handle<G, Message<usize, Tok_sink_talkback>> for SinkH {
    type HH = Heap;
    type CC = Cap;
    open spec fn gate(&self, k: int, h: Heap, g: G, c: Cap, m: Message<usize, Tok_sink_talkback>) -> bool {
        if k == $GATE_NO_PULL_DOWN { !(m is Pull) }
        else if k == $GATE_GREET_ONCE { m is Handshake ==> g.dn.phase == Dn::NotGreeted }
        else if k == $GATE_GREET_FIRST { !(m is Handshake) ==> g.dn.phase != Dn::NotGreeted || (m is Error && g.spawn_failed) }
        else if k == $GATE_AFTER_TERM { g.dn.phase != Dn::EndedByUs }
        else if k == $GATE_AFTER_DISPOSAL { !(m is Handshake) ==> g.dn.phase != Dn::EndedBySink }
        else if k == $GATE_TICK_ORDER { (m is Data ==> m->Data_0 == g.dn.data.len()) && (m is Terminate || m is Error ==> g.spawn_failed && g.dn.phase == Dn::NotGreeted) }
        else { true }
    }
    open spec fn post(&self, g: G, m: Message<usize, Tok_sink_talkback>) -> G { G { dn: dn_send(g.dn, m), ..g } }
    open spec fn needs_inv(&self, g: G, m: Message<usize, Tok_sink_talkback>, p: int) -> bool { !(m is Terminate || m is Error) }
    open spec fn extra(&self, h: Self::HH, g: G, c: Self::CC, m: Message<usize, Tok_sink_talkback>) -> bool { true }
}
impl SinkH {
    #[verifier::exec_allows_no_decreases_clause]
    pub fn call(&self, h: &mut Heap, g: &mut Ghost<G>, c: &Cap, m: Message<usize, Tok_sink_talkback>)
        requires
            GATES!(self, *old(h), old(g)@, *c, m),
            self.extra(*old(h), old(g)@, *c, m),
            self.needs_inv(old(g)@, m, $P) ==> INV!(*old(h), self.post(old(g)@, m), *c),
        ensures
            self.needs_inv(old(g)@, m, 0) ==> INV!(*final(h), final(g)@, *c),
            mono(*old(h), self.post(old(g)@, m), *final(h), final(g)@),
            final(g)@.ticks == old(g)@.ticks, final(g)@.dn.data == self.post(old(g)@, m).dn.data, final(h).i == old(h).i,
            !self.needs_inv(old(g)@, m, 0) ==> *final(h) == *old(h) && final(g)@ == self.post(old(g)@, m),
    {
        proof { g@ = self.post(g@, m); }
        if matches!(m, Message::Terminate | Message::Error(_)) { return; }
        let ghost h0 = *h; let ghost g0 = g@;
        loop
            invariant
                INV!(*h, g@, *c),
                mono(h0, g0, *h, g@), g@.ticks == g0.ticks, g@.dn.data == g0.dn.data, h.i == h0.i,
        {
            if nondet_bool() { break; }
            if ghost_test(Ghost(g@.dn.phase == Dn::Live)) {
                if nondet_bool() { interval__sink_talkback(h, g, c, Message::Pull); }
                else if nondet_bool() { interval__sink_talkback(h, g, c, Message::Terminate); }
                else { interval__sink_talkback(h, g, c, Message::Error(nondet_u64())); }
            }
        }
    }
}

#[verifier::exec_allows_no_decreases_clause]
pub fn interval__subscribe(h: &mut Heap, g: &mut Ghost<G>, c: &Cap, message: Message<Never, SinkH>)
    requires
        message is Handshake, old(g)@ == g_init(),
        none_alloc(*old(h)),
    ensures
        INV!(*final(h), final(g)@, *c),
        all_alloc(*final(h)), /* @C13 the counter and the disposal flag are allocated per subscription */
        final(g)@.spawn_failed ==> final(g)@.dn.phase == Dn::EndedByUs && final(g)@.dn.terms == 1 && final(g)@.dn.data.len() == 0, /* @C16 a refused task yields exactly one Error and nothing else */
        !final(g)@.spawn_failed ==> final(g)@.spawned && final(g)@.dn.phase != Dn::NotGreeted, /* @C01 otherwise the sink is greeted */
{
    let nursery = Nursery {}; let period = Period {};
    BODY!("interval");
}

#[verifier::exec_allows_no_decreases_clause]
#[verifier::loop_isolation(false)]
pub fn interval__async_task(h: &mut Heap, g: &mut Ghost<G>, c: &Cap)
    requires
        INV!(*old(h), old(g)@, *c),
        old(g)@.spawned, old(g)@.dn.phase != Dn::NotGreeted,
    ensures
        INV!(*final(h), final(g)@, *c),
        final(g)@.dn.phase == Dn::EndedBySink, /* @C16 the task stops only once the disposal is visible */
{
    let nursery = Nursery {}; let period = Period {}; let sink = SinkH {};
    let i = Cell_i {}; let interval_cleared = Cell_interval_cleared {};
    BODY!("async_task");
}
INVARIANT!("async_task", 0) {
    invariant
        INV!(*h, g@, *c),
        g@.spawned, g@.dn.phase != Dn::NotGreeted,
}

#[verifier::exec_allows_no_decreases_clause]
pub fn interval__sink_talkback(h: &mut Heap, g: &mut Ghost<G>, c: &Cap, message: Message<Never, Never>)
    requires
        INV!(*old(h), old(g)@, *c),
        old(g)@.dn.phase == Dn::Live,
        message is Pull || message is Terminate || message is Error,
    ensures
        INV!(*final(h), final(g)@, *c),
        mono(*old(h), old(g)@, *final(h), final(g)@), /* @C02 phases only move forward */
        final(g)@.ticks == old(g)@.ticks, final(g)@.dn.data == old(g)@.dn.data, final(h).i == old(h).i, final(g)@.spawned == old(g)@.spawned,
        (message is Terminate || message is Error) ==> final(g)@.dn.phase == Dn::EndedBySink && final(h).interval_cleared, /* @C16 disposal is recorded for the next tick */
{
    let interval_cleared = Cell_interval_cleared {};
    proof { g@ = G { dn: dn_recv(g@.dn, message), ..g@ }; }
    BODY!("sink_talkback");
}

/// Every history of one subscription: subscribe; if the task was accepted it runs (forever, or until it
/// sees the disposal); the sink acts while the task sleeps or from inside its handlers.
#[verifier::exec_allows_no_decreases_clause]
pub fn world(c: &Cap)
    requires cap_ok(*c)
{
    let mut h: Heap = fresh_heap();
    let mut g: Ghost<G> = Ghost(g_init());
    interval__subscribe(&mut h, &mut g, c, Message::Handshake(SinkH {}));
    if ghost_test(Ghost(g@.spawned)) {
        interval__async_task(&mut h, &mut g, c);
    }
}
