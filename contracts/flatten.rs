// ===================================================================================================
// flatten(source of sources): contract template.  Inner sources greet inside the subscribing call or LATER, at top
// level (a pending inner may meanwhile be superseded by a newer one, or the output may end: it is then told to
// stop when it greets).  Handler bodies are extracted from
// /repo/src/flatten.rs: subscription closure, sink talkback, outer handler, inner handler.
// ===================================================================================================
//@op flatten
//@properties C01 C02 C03 C04 C05 C06 C11 C13 C14 C17 C20
//@ignore ctor = let source = source.into(); Tok_flatten {}
//@token inner_source_talkback => Tok_inner_source_talkback { my_gen: my_gen }
//@heap Heap
//@tp T
//@celltp
//@extratag @C11 an inner is subscribed only with the previous one disposed and the outstanding demand in hand

#[derive(Clone, Copy)] pub struct OuterTb {}
#[derive(Clone, Copy)] pub struct OuterSrc {}
#[derive(Clone, Copy)] pub struct InnerTb { pub gen: Ghost<int> }
/// an inner source emitted by the outer source; `gen` is its (ghost) generation number
#[derive(Clone, Copy)] pub struct InnerSrc { pub gen: Ghost<int> }
impl InnerSrc { pub fn into(self) -> (r: InnerSrc) ensures r == self { self } }
impl OuterSrc { pub fn into(self) -> (r: OuterSrc) ensures r == self { self } }
#[derive(Clone, Copy)] pub struct Tok_sink_talkback {}
#[derive(Clone, Copy)] pub struct Tok_outer_source_talkback {}
#[derive(Clone, Copy)] pub struct Tok_inner_source_talkback { pub my_gen: usize }

pub struct G<T> {
    pub dn: DnLink<T>,
    pub outer: UpLink<InnerSrc>,
    pub inners: Seq<UpLink<T>>,   // one link per inner generation, in order of arrival
    pub arr: Seq<T>,              // data received from inner sources, in arrival order
}
pub struct Cap { pub pullable: bool }
pub struct Heap { pub outer_talkback: Option<OuterTb>, pub inner_talkback: Option<InnerTb>, pub inner_live: bool, pub inner_gen: usize, pub ended: bool,
    pub alloc_outer_talkback: bool, pub alloc_inner_talkback: bool, pub alloc_inner_live: bool, pub alloc_inner_gen: bool, pub alloc_ended: bool }
//@cell outer_talkback: Option<OuterTb> = swap_option
//@cell inner_talkback: Option<InnerTb> = swap_option
//@cell inner_live: bool = atomic
//@cell inner_gen: usize = atomic
//@cell ended: bool = atomic

pub open spec fn cap_ok(c: Cap) -> bool { true }
pub open spec fn g_init<T>() -> G<T> { G { dn: dn_init(), outer: up_init(), inners: Seq::empty(), arr: Seq::empty() } }
pub open spec fn none_alloc(h: Heap) -> bool { !h.alloc_outer_talkback && !h.alloc_inner_talkback && !h.alloc_inner_live && !h.alloc_inner_gen && !h.alloc_ended }
pub open spec fn all_alloc(h: Heap) -> bool { h.alloc_outer_talkback && h.alloc_inner_talkback && h.alloc_inner_live && h.alloc_inner_gen && h.alloc_ended }
#[verifier::external_body] pub fn fresh_heap() -> (h: Heap) ensures none_alloc(h) { unimplemented!() }
pub open spec fn alive(p: Up) -> bool { p == Up::Live || p == Up::Subscribing }
pub open spec fn itb<T>(h: Heap, g: G<T>) -> int { h.inner_talkback->Some_0.gen@ }
pub open spec fn set_inner<T>(g: G<T>, j: int, l: UpLink<T>) -> G<T> { G { inners: g.inners.update(j, l), ..g } }

//@invpart safe @C17,C04 stored talkbacks refer to existing generations; a live level has its talkback stored
//@invpart track @C11,C14,C02,C03 flatten knows whether an inner source is in progress, which one is the current one, and whether the output is over
//@invpart gen @C11 only the latest inner generation can be alive
//@invpart proto @C01 greeting and link phases agree; the output is over exactly when both levels are gone
//@invpart term @C02 at most one termination per link
//@invpart data @C11,C06 the sink has received exactly the data of the inner sources, in arrival order
//@invpart fwd @C05 an error of either level reaches the sink unchanged
//@invpart act @C11,C06 the stored inner talkback is the live, latest inner
//@invpart pull @C14,C06 demand conservation: the outstanding Pull rests with the active inner, else with the outer
pub open spec fn inv_safe<T>(h: Heap, g: G<T>, c: Cap) -> bool {
    &&& (h.inner_talkback is Some ==> 0 <= itb(h, g) < g.inners.len())
    &&& (g.outer.phase == Up::Live ==> h.outer_talkback is Some)
    &&& (forall|j: int| 0 <= j < g.inners.len() && g.inners[j].phase == Up::Live ==> h.inner_talkback is Some && itb(h, g) == j)
}
pub open spec fn inv_track<T>(h: Heap, g: G<T>, c: Cap) -> bool {
    // the generation counter counts the inner sources subscribed so far; `inner_live` says that the latest one is in progress
    &&& h.inner_gen == g.inners.len()
    &&& (!dn_over(g.dn.phase) ==> (h.inner_live <==> g.inners.len() > 0 && alive(g.inners.last().phase)))
    &&& (h.ended <==> dn_over(g.dn.phase))
}
pub open spec fn inv_gen<T>(h: Heap, g: G<T>, c: Cap) -> bool {
    &&& (forall|j: int| 0 <= j < g.inners.len() - 1 ==> (#[trigger] g.inners[j]).phase != Up::Live)
    &&& (forall|j: int| 0 <= j < g.inners.len() ==> (#[trigger] g.inners[j]).phase != Up::Idle)
    &&& (forall|j: int| 0 <= j < g.inners.len() && g.inners[j].phase == Up::Subscribing ==> (#[trigger] g.inners[j]) == (UpLink { phase: Up::Subscribing, ..up_init::<T>() }))
}
pub open spec fn inv_proto<T>(h: Heap, g: G<T>, c: Cap) -> bool {
    &&& g.outer.phase != Up::Subscribing || g.dn.phase == Dn::NotGreeted
    &&& (g.dn.phase == Dn::Live ==> (h.outer_talkback is Some ==> g.outer.phase == Up::Live))
    &&& (dn_over(g.dn.phase) ==> g.outer.phase != Up::Live && forall|j: int| 0 <= j < g.inners.len() ==> (#[trigger] g.inners[j]).phase != Up::Live)
    &&& (g.dn.phase == Dn::NotGreeted ==> (g.outer.phase == Up::Idle || g.outer.phase == Up::Subscribing) && g.inners.len() == 0 && h.inner_talkback is None && h.outer_talkback is None)
    &&& (g.dn.phase == Dn::NotGreeted ==> g.dn.pulls == 0 && g.dn.data.len() == 0 && g.outer.pulls == 0 && g.outer.data.len() == 0)
    &&& (g.dn.phase == Dn::Live ==> g.outer.phase == Up::Live || g.outer.phase == Up::EndedBySelf)
    &&& (g.dn.phase == Dn::Live && g.outer.phase == Up::EndedBySelf ==> h.outer_talkback is None && h.inner_live)
}
pub open spec fn inv_term<T>(h: Heap, g: G<T>, c: Cap) -> bool {
    &&& g.dn.terms == (if g.dn.phase == Dn::EndedByUs { 1nat } else { 0nat })
    &&& g.outer.terms == (if g.outer.phase == Up::EndedByUs { 1nat } else { 0nat })
    &&& (forall|j: int| 0 <= j < g.inners.len() ==> (#[trigger] g.inners[j]).terms == (if g.inners[j].phase == Up::EndedByUs { 1nat } else { 0nat }))
}
pub open spec fn inv_data<T>(h: Heap, g: G<T>, c: Cap) -> bool {
    g.dn.data =~= g.arr
}
pub open spec fn inv_fwd<T>(h: Heap, g: G<T>, c: Cap) -> bool {
    &&& (g.dn.phase != Dn::EndedByUs ==> g.dn.err is None)
    &&& (g.outer.phase == Up::ErroredBySelf ==> g.dn.phase == Dn::EndedByUs && g.dn.err == g.outer.err)
    &&& (forall|j: int| 0 <= j < g.inners.len() && g.inners[j].phase == Up::ErroredBySelf ==> g.dn.phase == Dn::EndedByUs && g.dn.err == (#[trigger] g.inners[j]).err)
}
pub open spec fn inv_act<T>(h: Heap, g: G<T>, c: Cap) -> bool {
    &&& (g.dn.phase == Dn::Live ==> (h.inner_talkback is Some ==> g.inners[itb(h, g)].phase == Up::Live))
    // each inner that is running was pulled by flatten itself on greeting
    &&& (forall|j: int| 0 <= j < g.inners.len() && (#[trigger] g.inners[j]).phase == Up::Live ==> g.inners[j].pulls >= 1)
}
pub open spec fn out<T>(l: UpLink<T>) -> int { l.pulls - l.data.len() }
pub open spec fn inv_pull<T>(h: Heap, g: G<T>, c: Cap) -> bool {
    c.pullable ==> {
        &&& g.dn.data.len() <= g.dn.pulls <= g.dn.data.len() + 1
        &&& 0 <= out(g.outer) <= 1
        &&& (forall|j: int| 0 <= j < g.inners.len() ==> 0 <= out(#[trigger] g.inners[j]))
        &&& (g.dn.phase == Dn::Live && h.inner_talkback is Some ==> g.dn.pulls - g.dn.data.len() == out(g.inners[itb(h, g)]) && (g.outer.phase == Up::Live ==> out(g.outer) == 0))
        &&& (g.dn.phase == Dn::Live && h.inner_talkback is None && !h.inner_live ==> g.dn.pulls - g.dn.data.len() == out(g.outer))
        // an inner that has not greeted yet: the sink's outstanding Pull waits for its greeting
        &&& (g.dn.phase == Dn::Live && h.inner_talkback is None && h.inner_live ==> g.dn.pulls == g.dn.data.len() + 1 && (g.outer.phase == Up::Live ==> out(g.outer) == 0))
    }
}
pub open spec fn ups_mono<T>(a: Seq<UpLink<T>>, b: Seq<UpLink<T>>) -> bool {
    &&& a.len() <= b.len()
    &&& (forall|j: int| #![trigger a[j]] #![trigger b[j]] 0 <= j < a.len() ==> upl_mono(a[j], b[j]))
}
pub open spec fn mono<T>(a: Heap, ga: G<T>, b: Heap, gb: G<T>) -> bool {
    &&& dnl_mono(ga.dn, gb.dn)
    &&& upl_mono(ga.outer, gb.outer)
    &&& ups_mono(ga.inners, gb.inners)
    &&& (all_alloc(a) ==> all_alloc(b))
}
pub open spec fn sink_rel<T>(a: Heap, ga: G<T>, b: Heap, gb: G<T>, c: Cap) -> bool { true }
pub open spec fn nothing_alive<T>(g: G<T>) -> bool { g.outer.phase != Up::Live && forall|j: int| 0 <= j < g.inners.len() ==> (#[trigger] g.inners[j]).phase != Up::Live }

//@include env_dn.rs OP=flatten TP=T G=G<T> GNAME=G HEAP=Heap O=T ORPHAN="nothing_alive(g)" QUIET=true LITE=false SINKGATE="k == $GATE_FLAT_DONE ==> (m is Terminate ==> g.outer.phase == Up::EndedBySelf && nothing_alive(g))"

// ---------------------------------------------------------------------------------------------------
// most general conformant outer source (emits fresh inner sources) and inner sources
// ---------------------------------------------------------------------------------------------------
impl<T> Handle<G<T>, Message<Never, Never>> for OuterTb {
    type HH = Heap;
    type CC = Cap;
    open spec fn gate(&self, k: int, h: Heap, g: G<T>, c: Cap, m: Message<Never, Never>) -> bool {
        if k == $GATE_UP_KIND { m is Pull || m is Terminate || m is Error }
        else if k == $GATE_UP_GREETED { up_greeted(g.outer.phase) }
        else if k == $GATE_UP_PULL_LIVE { m is Pull ==> g.outer.phase != Up::EndedByUs }
        else if k == $GATE_UP_PULL_SELF { m is Pull ==> g.outer.phase != Up::EndedBySelf && g.outer.phase != Up::ErroredBySelf }
        else if k == $GATE_UP_TERM_ONCE { !(m is Pull) ==> g.outer.phase != Up::EndedByUs }
        else if k == $GATE_UP_TERM_SELF { !(m is Pull) ==> g.outer.phase != Up::EndedBySelf && g.outer.phase != Up::ErroredBySelf }
        else if k == $GATE_FLAT_ROUTE { m is Pull ==> forall|j: int| 0 <= j < g.inners.len() ==> (#[trigger] g.inners[j]).phase != Up::Live }
        else { true }
    }
    open spec fn post(&self, g: G<T>, m: Message<Never, Never>) -> G<T> { G { outer: up_send(g.outer, m), ..g } }
    open spec fn needs_inv(&self, g: G<T>, m: Message<Never, Never>, p: int) -> bool { m is Pull }
    open spec fn extra(&self, h: Self::HH, g: G<T>, c: Self::CC, m: Message<Never, Never>) -> bool { true }
}
impl OuterTb {
    #[verifier::exec_allows_no_decreases_clause]
    pub fn call<T>(&self, h: &mut Heap, g: &mut Ghost<G<T>>, c: &Cap, m: Message<Never, Never>)
        requires
            GATES!(self, *old(h), old(g)@, *c, m),
            self.extra(*old(h), old(g)@, *c, m),
            self.needs_inv(old(g)@, m, $P) ==> INV!(*old(h), self.post(old(g)@, m), *c),
        ensures
            self.needs_inv(old(g)@, m, 0) ==> INV!(*final(h), final(g)@, *c),
            self.needs_inv(old(g)@, m, 0) ==> mono(*old(h), self.post(old(g)@, m), *final(h), final(g)@),
            !self.needs_inv(old(g)@, m, 0) ==> *final(h) == *old(h) && final(g)@ == self.post(old(g)@, m),
    {
        proof { g@ = self.post(g@, m); }
        if matches!(m, Message::Terminate | Message::Error(_)) { return; }
        outer_events(h, g, c);
    }
}
#[verifier::exec_allows_no_decreases_clause]
pub fn outer_events<T>(h: &mut Heap, g: &mut Ghost<G<T>>, c: &Cap)
    requires
        INV!(*old(h), old(g)@, *c),
    ensures
        INV!(*final(h), final(g)@, *c),
        mono(*old(h), old(g)@, *final(h), final(g)@),
{
    let ghost h0 = *h; let ghost g0 = g@;
    loop
        invariant
            INV!(*h, g@, *c),
            mono(h0, g0, *h, g@),
    {
        if nondet_bool() { break; }
        let ghost live = g@.outer.phase == Up::Live;
        let ghost outstanding = g@.outer.data.len() < g@.outer.pulls;
        if ghost_test(Ghost(live)) {
            if !c.pullable || ghost_test(Ghost(outstanding)) {
                if nondet_bool() { assume_gens_bounded(g); flatten__outer_source_talkback(h, g, c, Message::Data(InnerSrc { gen: Ghost(g@.inners.len() as int) })); }
                else if nondet_bool() { flatten__outer_source_talkback(h, g, c, Message::Terminate); }
                else { flatten__outer_source_talkback(h, g, c, Message::Error(nondet_u64())); }
            }
        }
    }
}
impl<T> Handle<G<T>, Message<Never, Tok_outer_source_talkback>> for OuterSrc {
    type HH = Heap;
    type CC = Cap;
    open spec fn gate(&self, k: int, h: Heap, g: G<T>, c: Cap, m: Message<Never, Tok_outer_source_talkback>) -> bool {
        if k == $GATE_SUB_KIND { m is Handshake }
        else if k == $GATE_SUB_ONCE { g.outer.phase == Up::Idle }
        else if k == $GATE_SUB_OVER { !dn_over(g.dn.phase) }
        else { true }
    }
    open spec fn post(&self, g: G<T>, m: Message<Never, Tok_outer_source_talkback>) -> G<T> { G { outer: UpLink { phase: Up::Subscribing, ..g.outer }, ..g } }
    open spec fn needs_inv(&self, g: G<T>, m: Message<Never, Tok_outer_source_talkback>, p: int) -> bool { true }
    open spec fn extra(&self, h: Self::HH, g: G<T>, c: Self::CC, m: Message<Never, Tok_outer_source_talkback>) -> bool { true }
}
impl OuterSrc {
    #[verifier::exec_allows_no_decreases_clause]
    pub fn call<T>(&self, h: &mut Heap, g: &mut Ghost<G<T>>, c: &Cap, m: Message<Never, Tok_outer_source_talkback>)
        requires
            GATES!(self, *old(h), old(g)@, *c, m),
            self.extra(*old(h), old(g)@, *c, m),
            self.needs_inv(old(g)@, m, $P) ==> INV!(*old(h), self.post(old(g)@, m), *c),
        ensures
            INV!(*final(h), final(g)@, *c),
            mono(*old(h), self.post(old(g)@, m), *final(h), final(g)@),
    {
        proof { g@ = self.post(g@, m); }
        flatten__outer_source_talkback(h, g, c, Message::Handshake(OuterTb {}));
        outer_events(h, g, c);
    }
}
impl<T> Handle<G<T>, Message<Never, Never>> for InnerTb {
    type HH = Heap;
    type CC = Cap;
    open spec fn gate(&self, k: int, h: Heap, g: G<T>, c: Cap, m: Message<Never, Never>) -> bool {
        if k == $GATE_UP_KIND { m is Pull || m is Terminate || m is Error }
        else if k == $GATE_UP_GREETED { 0 <= self.gen@ < g.inners.len() && up_greeted(g.inners[self.gen@].phase) }
        else if k == $GATE_UP_PULL_LIVE { 0 <= self.gen@ < g.inners.len() && (m is Pull ==> g.inners[self.gen@].phase != Up::EndedByUs) }
        else if k == $GATE_UP_PULL_SELF { 0 <= self.gen@ < g.inners.len() && (m is Pull ==> g.inners[self.gen@].phase != Up::EndedBySelf && g.inners[self.gen@].phase != Up::ErroredBySelf) }
        else if k == $GATE_UP_TERM_ONCE { 0 <= self.gen@ < g.inners.len() && (!(m is Pull) ==> g.inners[self.gen@].phase != Up::EndedByUs) }
        else if k == $GATE_UP_TERM_SELF { 0 <= self.gen@ < g.inners.len() && (!(m is Pull) ==> g.inners[self.gen@].phase != Up::EndedBySelf && g.inners[self.gen@].phase != Up::ErroredBySelf) }
        else { true }
    }
    open spec fn post(&self, g: G<T>, m: Message<Never, Never>) -> G<T> { set_inner(g, self.gen@, up_send(g.inners[self.gen@], m)) }
    open spec fn needs_inv(&self, g: G<T>, m: Message<Never, Never>, p: int) -> bool { m is Pull }
    open spec fn extra(&self, h: Self::HH, g: G<T>, c: Self::CC, m: Message<Never, Never>) -> bool { true }
}
impl InnerTb {
    #[verifier::exec_allows_no_decreases_clause]
    pub fn call<T>(&self, h: &mut Heap, g: &mut Ghost<G<T>>, c: &Cap, m: Message<Never, Never>)
        requires
            GATES!(self, *old(h), old(g)@, *c, m),
            self.extra(*old(h), old(g)@, *c, m),
            self.needs_inv(old(g)@, m, $P) ==> INV!(*old(h), self.post(old(g)@, m), *c),
        ensures
            self.needs_inv(old(g)@, m, 0) ==> INV!(*final(h), final(g)@, *c),
            self.needs_inv(old(g)@, m, 0) ==> mono(*old(h), self.post(old(g)@, m), *final(h), final(g)@),
            !self.needs_inv(old(g)@, m, 0) ==> *final(h) == *old(h) && final(g)@ == self.post(old(g)@, m),
    {
        proof { g@ = self.post(g@, m); }
        if matches!(m, Message::Terminate | Message::Error(_)) { return; }
        inner_events(h, g, c, self.gen);
    }
}
#[verifier::exec_allows_no_decreases_clause]
pub fn inner_events<T>(h: &mut Heap, g: &mut Ghost<G<T>>, c: &Cap, k: Ghost<int>)
    requires
        INV!(*old(h), old(g)@, *c),
    ensures
        INV!(*final(h), final(g)@, *c),
        mono(*old(h), old(g)@, *final(h), final(g)@),
{
    let ghost h0 = *h; let ghost g0 = g@;
    loop
        invariant
            INV!(*h, g@, *c),
            mono(h0, g0, *h, g@),
    {
        if nondet_bool() { break; }
        let ghost live = 0 <= k@ < g@.inners.len() && g@.inners[k@].phase == Up::Live;
        let ghost outstanding = 0 <= k@ < g@.inners.len() && g@.inners[k@].data.len() < g@.inners[k@].pulls;
        if ghost_test(Ghost(live)) {
            if !c.pullable || ghost_test(Ghost(outstanding)) {
                if nondet_bool() { flatten__inner_source_talkback(h, g, c, k, nondet_gen(k), Message::Data(nondet::<T>())); }
                else if nondet_bool() { flatten__inner_source_talkback(h, g, c, k, nondet_gen(k), Message::Terminate); }
                else { flatten__inner_source_talkback(h, g, c, k, nondet_gen(k), Message::Error(nondet_u64())); }
            }
        }
    }
}
impl<T> Handle<G<T>, Message<Never, Tok_inner_source_talkback>> for InnerSrc {
    type HH = Heap;
    type CC = Cap;
    open spec fn gate(&self, k: int, h: Heap, g: G<T>, c: Cap, m: Message<Never, Tok_inner_source_talkback>) -> bool {
        if k == $GATE_SUB_KIND { m is Handshake }
        else if k == $GATE_SUB_ONCE { self.gen@ == g.inners.len() }
        else if k == $GATE_SUB_OVER { g.dn.phase == Dn::Live }
        else if k == $GATE_PREV_INNER { forall|j: int| 0 <= j < g.inners.len() ==> (#[trigger] g.inners[j]).phase != Up::Live }
        else { true }
    }
    open spec fn post(&self, g: G<T>, m: Message<Never, Tok_inner_source_talkback>) -> G<T> { G { inners: g.inners.push(UpLink { phase: Up::Subscribing, ..up_init::<T>() }), ..g } }
    /// between disposing the previous inner and the greeting of the next one, the "active inner" parts do not hold
    open spec fn needs_inv(&self, g: G<T>, m: Message<Never, Tok_inner_source_talkback>, p: int) -> bool { true }
    open spec fn extra(&self, h: Self::HH, g: G<T>, c: Self::CC, m: Message<Never, Tok_inner_source_talkback>) -> bool { true }
}
impl InnerSrc {
    #[verifier::exec_allows_no_decreases_clause]
    pub fn call<T>(&self, h: &mut Heap, g: &mut Ghost<G<T>>, c: &Cap, m: Message<Never, Tok_inner_source_talkback>)
        requires
            GATES!(self, *old(h), old(g)@, *c, m),
            self.extra(*old(h), old(g)@, *c, m),
            self.needs_inv(old(g)@, m, $P) ==> INV!(*old(h), self.post(old(g)@, m), *c),
        ensures
            INV!(*final(h), final(g)@, *c),
            mono(*old(h), self.post(old(g)@, m), *final(h), final(g)@),
    {
        proof { g@ = self.post(g@, m); }
        if nondet_bool() { return; }   // the inner source greets later, at top level
        flatten__inner_source_talkback(h, g, c, self.gen, nondet_gen(self.gen), Message::Handshake(InnerTb { gen: self.gen }));
        inner_events(h, g, c, self.gen);
    }
}
/// assumption: fewer than 2^64 inner sources per subscription (the generation counter does not wrap)
#[verifier::external_body] pub fn assume_gens_bounded<T>(g: &Ghost<G<T>>) ensures g@.inners.len() < usize::MAX { unimplemented!() }
/// the generation number an inner handler captured when it was created (its closure carries `my_gen`)
#[verifier::external_body] pub fn nondet_gen(k: Ghost<int>) -> (r: usize) ensures r == k@ + 1 { unimplemented!() }
/// the one transient state: generation k has been subscribed and has not greeted yet
pub open spec fn pre_greet<T>(h: Heap, g: G<T>, c: Cap, k: int) -> bool {
    &&& k == g.inners.len() - 1 && k >= 0
    &&& g.inners[k] == (UpLink { phase: Up::Subscribing, ..up_init::<T>() })
    &&& (forall|j: int| 0 <= j < k ==> !alive((#[trigger] g.inners[j]).phase))
    &&& (forall|j: int| 0 <= j < k ==> (#[trigger] g.inners[j]).pulls >= 1)
    &&& g.dn.phase == Dn::Live && g.outer.phase == Up::Live
    &&& (c.pullable ==> g.dn.pulls == g.dn.data.len() + 1 && out(g.outer) == 0 && (forall|j: int| 0 <= j < k ==> 0 <= out(#[trigger] g.inners[j])))
}

#[verifier::exec_allows_no_decreases_clause]
pub fn flatten__subscribe<T>(h: &mut Heap, g: &mut Ghost<G<T>>, c: &Cap, message: Message<Never, SinkH>)
    requires
        message is Handshake, old(g)@ == g_init::<T>(),
        none_alloc(*old(h)),
    ensures
        INV!(*final(h), final(g)@, *c),
        all_alloc(*final(h)), /* @C13 every cell is allocated per subscription */
{
    let source = OuterSrc {};
    BODY!("flatten");
}

#[verifier::exec_allows_no_decreases_clause]
pub fn flatten__sink_talkback<T>(h: &mut Heap, g: &mut Ghost<G<T>>, c: &Cap, message: Message<Never, Never>)
    requires
        INV!(*old(h), old(g)@, *c),
        old(g)@.dn.phase == Dn::Live,
        message is Pull || message is Terminate || message is Error,
        message is Pull && c.pullable ==> old(g)@.dn.pulls <= old(g)@.dn.data.len(), // profile P
    ensures
        INV!(*final(h), final(g)@, *c),
        mono(*old(h), old(g)@, *final(h), final(g)@), /* @C02 phases only move forward */
        sink_rel(*old(h), old(g)@, *final(h), final(g)@, *c),
        (message is Terminate || message is Error) ==> nothing_alive(final(g)@), /* @C04 disposal reaches both levels */
        (message is Terminate || message is Error) ==> final(g)@.dn.phase == Dn::EndedBySink, /* @C03 no termination back to a sink that disposed */
        message is Pull && old(g)@.inners.len() > 0 && old(g)@.inners.last().phase == Up::Live ==> final(g)@.inners[old(g)@.inners.len() - 1].pulls > old(g)@.inners.last().pulls, /* @C11 a Pull goes to the active inner if there is one */
        message is Pull && !(old(g)@.inners.len() > 0 && alive(old(g)@.inners.last().phase)) && old(g)@.outer.phase == Up::Live ==> final(g)@.outer.pulls > old(g)@.outer.pulls, /* @C11 a Pull goes to the outer when no inner is in progress */
{
    let outer_talkback = Cell_outer_talkback {}; let inner_talkback = Cell_inner_talkback {}; let inner_live = Cell_inner_live {}; let inner_gen = Cell_inner_gen {}; let ended = Cell_ended {};
    proof { g@ = G { dn: dn_recv(g@.dn, message), ..g@ }; }
    BODY!("sink_talkback");
}

//@split Handshake Data Error Terminate
#[verifier::exec_allows_no_decreases_clause]
pub fn flatten__outer_source_talkback<T>(h: &mut Heap, g: &mut Ghost<G<T>>, c: &Cap, message: Message<InnerSrc, OuterTb>)
    requires
        INV!(*old(h), old(g)@, *c),
        !(message is Pull),
        message is Handshake ==> old(g)@.outer.phase == Up::Subscribing,
        !(message is Handshake) ==> old(g)@.outer.phase == Up::Live,
        message is Data ==> message->Data_0.gen@ == old(g)@.inners.len(),
        message is Data ==> old(g)@.inners.len() < usize::MAX, // assumption: the outer source emits fewer than 2^64 inner sources (the generation counter does not wrap)
        !(message is Handshake) && c.pullable ==> old(g)@.outer.data.len() < old(g)@.outer.pulls, // profile P
    ensures
        INV!(*final(h), final(g)@, *c),
        mono(*old(h), old(g)@, *final(h), final(g)@), /* @C02 phases only move forward */
        message is Error && old(g)@.dn.phase == Dn::Live ==> final(g)@.dn.phase == Dn::EndedByUs && final(g)@.dn.err == Some(message->Error_0) && nothing_alive(final(g)@), /* @C05 an outer error reaches the sink, the inner is disposed */
        message is Data ==> final(g)@.inners.len() > old(g)@.inners.len(), /* @C11 each inner the outer emits is subscribed */
{
    let outer_talkback = Cell_outer_talkback {}; let inner_talkback = Cell_inner_talkback {}; let inner_live = Cell_inner_live {}; let inner_gen = Cell_inner_gen {}; let ended = Cell_ended {};
    let sink = SinkH {}; let talkback = Tok_sink_talkback {};
    proof { g@ = G { outer: up_recv(g@.outer, message), ..g@ }; }
    BODY!("outer_source_talkback");
}

//@split Handshake Data Error Terminate
#[verifier::exec_allows_no_decreases_clause]
pub fn flatten__inner_source_talkback<T>(h: &mut Heap, g: &mut Ghost<G<T>>, c: &Cap, k: Ghost<int>, my_gen: usize, message: Message<T, InnerTb>)
    requires
        my_gen == k@ + 1,
        INV!(*old(h), old(g)@, *c),
        0 <= k@ < old(g)@.inners.len(), !(message is Pull),
        message is Handshake ==> old(g)@.inners[k@].phase == Up::Subscribing && message->Handshake_0.gen@ == k@,
        !(message is Handshake) ==> old(g)@.inners[k@].phase == Up::Live,
        !(message is Handshake) && c.pullable ==> old(g)@.inners[k@].data.len() < old(g)@.inners[k@].pulls, // profile P
    ensures
        INV!(*final(h), final(g)@, *c),
        mono(*old(h), old(g)@, *final(h), final(g)@), /* @C02 phases only move forward */
        message is Error && old(g)@.dn.phase == Dn::Live ==> final(g)@.dn.phase == Dn::EndedByUs && final(g)@.dn.err == Some(message->Error_0) && nothing_alive(final(g)@), /* @C05 an inner error reaches the sink, the outer is disposed */
        message is Handshake && !dn_over(old(g)@.dn.phase) && k@ == old(g)@.inners.len() - 1 ==> final(g)@.inners[k@].pulls >= 1, /* @C11 an inner is pulled once on greeting */
        message is Handshake && (dn_over(old(g)@.dn.phase) || k@ < old(g)@.inners.len() - 1) ==> final(g)@.inners[k@].phase == Up::EndedByUs, /* @C11 an inner that greets when the output is over, or when a newer one has replaced it, is told to stop */
{
    let outer_talkback = Cell_outer_talkback {}; let inner_talkback = Cell_inner_talkback {}; let inner_live = Cell_inner_live {}; let inner_gen = Cell_inner_gen {}; let ended = Cell_ended {};
    let sink = SinkH {};
    proof {
        if message is Data { g@ = G { arr: g@.arr.push(message->Data_0), ..g@ }; }
        g@ = set_inner(g@, k@, up_recv(g@.inners[k@], message));
    }
    BODY!("inner_source_talkback");
}

/// Every history of one subscription with conformant peers is an execution of `world`.
#[verifier::exec_allows_no_decreases_clause]
pub fn world<T>(c: &Cap)
    requires cap_ok(*c)
{
    let mut h: Heap = fresh_heap();
    let mut g: Ghost<G<T>> = Ghost(g_init());
    flatten__subscribe(&mut h, &mut g, c, Message::Handshake(SinkH {}));
    loop
        invariant
            INV!(h, g@, *c),
    {
        if nondet_bool() {
            outer_events(&mut h, &mut g, c);
        } else if nondet_bool() {
            let k: Ghost<int> = nondet_ghost_int();
            let ghost pending = 0 <= k@ < g@.inners.len() && g@.inners[k@].phase == Up::Subscribing;
            if ghost_test(Ghost(pending)) {
                flatten__inner_source_talkback(&mut h, &mut g, c, k, nondet_gen(k), Message::Handshake(InnerTb { gen: k }));   // a late greeting
            }
            inner_events(&mut h, &mut g, c, k);
        } else if ghost_test(Ghost(g@.dn.phase == Dn::Live)) {
            if nondet_bool() {
                if !c.pullable || ghost_test(Ghost(g@.dn.pulls <= g@.dn.data.len())) {
                    flatten__sink_talkback(&mut h, &mut g, c, Message::Pull);
                }
            }
            else if nondet_bool() { flatten__sink_talkback(&mut h, &mut g, c, Message::Terminate); }
            else { flatten__sink_talkback(&mut h, &mut g, c, Message::Error(nondet_u64())); }
        }
    }
}
