// ===================================================================================================
// from_iter(iter): contract template (a source).  Bodies are extracted from /repo/src/from_iter.rs:
// the subscription closure, the `loop` closure and the sink talkback.
// ===================================================================================================
//@op from_iter
//@properties C01 C02 C03 C13 C14 C15 C17 C20 C06
//@ignore ctor = Tok_from_iter {}
//@heap Heap<T>
//@tp T
//@celltp T

pub struct G<T> {
    pub dn: DnLink<T>,
    pub ddepth: nat,        // Data/Terminate deliveries to the sink currently in progress
    pub next_calls: nat,    // how often the iterator has been advanced
    pub loop_active: bool,  // a frame of the `loop` closure is on the stack
}
pub struct Cap { pub pullable: bool }
pub struct Heap<T> {
    pub in_loop: bool, pub got_pull: bool, pub completed: bool, pub res: Option<T>, pub res_done: bool,
    pub alloc_iter: bool, pub alloc_in_loop: bool, pub alloc_got_pull: bool, pub alloc_completed: bool, pub alloc_res: bool, pub alloc_res_done: bool,
}
#[derive(Clone, Copy)] pub struct Tok_sink_talkback {}
//@cell in_loop: bool = atomic
//@cell got_pull: bool = atomic
//@cell completed: bool = atomic
//@cell res_done: bool = atomic

/// the items the user's iterator yields: a fixed sequence (k-th call of `next`), `None` = exhausted
pub uninterp spec fn items<T>(k: nat) -> Option<T>;
/// the captured `iter: I` (IntoIterator + Clone) and the iterator made from a clone of it
#[derive(Clone, Copy)] pub struct IterSrc {}
#[derive(Clone, Copy)] pub struct IterState {}
impl IterSrc { pub fn into_iter(self) -> IterState { IterState {} } }
/// `RwLock<I::IntoIter>`: the iterator position is the ghost counter `next_calls`
#[derive(Clone, Copy)] pub struct Cell_iter {}
impl Cell_iter {
    pub fn alloc<T>(h: &mut Heap<T>, v: IterState) -> (r: Cell_iter) ensures *final(h) == (Heap { alloc_iter: true, ..*old(h) }) { h.alloc_iter = true; Cell_iter {} }
    /// `iter.write().unwrap()`: the lock is never poisoned (no panic while it is held: C17)
    pub fn write_guard(&self) -> Cell_iter { Cell_iter {} }
    /// `Iterator::next` on the user's iterator
    #[verifier::external_body]
    pub fn next<T>(&self, h: &mut Heap<T>, g: &mut Ghost<G<T>>, c: &Cap) -> (r: Option<T>)
        requires
            old(g)@.dn.phase == Dn::Live, /* @C15 the iterator is never advanced once the sink has disposed */
            old(g)@.next_calls < old(g)@.dn.pulls, /* @C15 the iterator is advanced only on demand: at most once per Pull */
        ensures r == items::<T>(old(g)@.next_calls), *final(h) == *old(h), final(g)@ == (G { next_calls: old(g)@.next_calls + 1, ..old(g)@ }),
    { unimplemented!() }
}
/// `RwLock<Option<T>>`
#[derive(Clone, Copy)] pub struct Cell_res {}
impl Cell_res {
    pub fn alloc<T>(h: &mut Heap<T>, v: Option<T>) -> (r: Cell_res) ensures *final(h) == (Heap { res: v, alloc_res: true, ..*old(h) }) { h.res = v; h.alloc_res = true; Cell_res {} }
    pub fn write_guard(&self) -> Cell_res { Cell_res {} }
    pub fn set<T>(&self, h: &mut Heap<T>, g: &mut Ghost<G<T>>, c: &Cap, v: Option<T>) ensures *final(h) == (Heap { res: v, ..*old(h) }), final(g)@ == old(g)@ { h.res = v; }
    pub fn is_none<T>(&self, h: &mut Heap<T>, g: &mut Ghost<G<T>>, c: &Cap) -> (r: bool) ensures r == (old(h).res is None), *final(h) == *old(h), final(g)@ == old(g)@ { h.res.is_none() }
    pub fn take<T>(&self, h: &mut Heap<T>, g: &mut Ghost<G<T>>, c: &Cap) -> (r: Option<T>) ensures r == old(h).res, *final(h) == (Heap { res: None, ..*old(h) }), final(g)@ == old(g)@ { h.res.take() }
}

pub open spec fn cap_ok(c: Cap) -> bool { true }
pub open spec fn g_init<T>() -> G<T> { G { dn: dn_init(), ddepth: 0, next_calls: 0, loop_active: false } }
pub open spec fn none_alloc<T>(h: Heap<T>) -> bool { !h.alloc_iter && !h.alloc_in_loop && !h.alloc_got_pull && !h.alloc_completed && !h.alloc_res && !h.alloc_res_done }
pub open spec fn all_alloc<T>(h: Heap<T>) -> bool { h.alloc_iter && h.alloc_in_loop && h.alloc_got_pull && h.alloc_completed && h.alloc_res && h.alloc_res_done }
#[verifier::external_body] pub fn fresh_heap<T>() -> (h: Heap<T>) ensures none_alloc(h) { unimplemented!() }
pub open spec fn answered<T>(g: G<T>) -> nat { g.dn.data.len() + g.dn.terms }

//@invpart order @C15,C06 items are delivered in iterator order, the iterator is advanced once per item plus once to discover exhaustion
//@invpart reent @C15 no delivery begins while an earlier one is in progress
//@invpart demand @C14,C06 never more answers than Pulls
//@invpart answer @C14,C06 in pullable mode every Pull is answered: at most the Pull being served is outstanding
//@invpart term @C02,C03,C15 at most one termination; the flags agree with the link phase (a disposal is remembered)
//@invpart safe @C17 the result slot is empty at every yield
pub open spec fn inv_order<T>(h: Heap<T>, g: G<T>, c: Cap) -> bool {
    &&& g.next_calls == g.dn.data.len() + (if h.res_done { 1nat } else { 0nat })
    &&& (forall|k: int| 0 <= k < g.dn.data.len() ==> items::<T>(k as nat) == Some(#[trigger] g.dn.data[k]))
    &&& (h.res_done ==> items::<T>(g.dn.data.len()) is None)
    &&& g.next_calls + (if h.got_pull && g.dn.phase == Dn::Live && !h.res_done { 1nat } else { 0nat }) <= g.dn.pulls
}
pub open spec fn inv_reent<T>(h: Heap<T>, g: G<T>, c: Cap) -> bool {
    &&& h.in_loop == g.loop_active
    &&& g.ddepth <= 1
    &&& (g.ddepth == 1 ==> g.loop_active)
}
pub open spec fn inv_demand<T>(h: Heap<T>, g: G<T>, c: Cap) -> bool {
    answered(g) + (if h.got_pull && g.dn.phase == Dn::Live && !h.res_done { 1nat } else { 0nat }) <= g.dn.pulls
}
pub open spec fn inv_answer<T>(h: Heap<T>, g: G<T>, c: Cap) -> bool {
    c.pullable && g.dn.phase == Dn::Live ==> g.dn.pulls == g.dn.data.len() + (if h.got_pull && !h.res_done { 1nat } else { 0nat })
}
pub open spec fn inv_term<T>(h: Heap<T>, g: G<T>, c: Cap) -> bool {
    &&& g.dn.terms == (if g.dn.phase == Dn::EndedByUs { 1nat } else { 0nat })
    &&& (h.completed <==> g.dn.phase == Dn::EndedBySink)
    &&& (g.dn.phase == Dn::EndedByUs <==> h.res_done)
    &&& (g.dn.phase == Dn::NotGreeted ==> g.dn.pulls == 0 && g.dn.data.len() == 0 && !h.res_done && !g.loop_active && !h.got_pull)
    &&& g.dn.err is None
}
pub open spec fn inv_safe<T>(h: Heap<T>, g: G<T>, c: Cap) -> bool {
    h.res is None
}
pub open spec fn mono<T>(a: Heap<T>, ga: G<T>, b: Heap<T>, gb: G<T>) -> bool {
    &&& dnl_mono(ga.dn, gb.dn)
    &&& (a.completed ==> b.completed) && (a.res_done ==> b.res_done)
    &&& gb.ddepth == ga.ddepth
    // while a loop frame is on the stack, nested handlers neither run a loop nor advance the iterator
    &&& (ga.loop_active ==> gb.loop_active && gb.dn.data == ga.dn.data && gb.dn.terms == ga.dn.terms && b.res_done == a.res_done && gb.next_calls == ga.next_calls)
    &&& (!ga.loop_active ==> !gb.loop_active)
    &&& (all_alloc(a) ==> all_alloc(b))
}

// ---------------------------------------------------------------------------------------------------
// most general conformant sink (same shape as env_dn.rs, plus the delivery-depth ghost of C15)
// ---------------------------------------------------------------------------------------------------
#[derive(Clone, Copy)] pub struct SinkH {}
pub open spec fn bump<T>(m: Message<T, Tok_sink_talkback>) -> nat { if m is Handshake { 0nat } else { 1nat } }
impl<T> Handle<G<T>, Message<T, Tok_sink_talkback>> for SinkH {
    type HH = Heap<T>;
    type CC = Cap;
    open spec fn gate(&self, k: int, h: Heap<T>, g: G<T>, c: Cap, m: Message<T, Tok_sink_talkback>) -> bool {
        if k == $GATE_NO_PULL_DOWN { !(m is Pull) }
        else if k == $GATE_GREET_ONCE { m is Handshake ==> g.dn.phase == Dn::NotGreeted }
        else if k == $GATE_GREET_FIRST { !(m is Handshake) ==> g.dn.phase != Dn::NotGreeted }
        else if k == $GATE_AFTER_TERM { !(m is Handshake) ==> g.dn.phase != Dn::EndedByUs }
        else if k == $GATE_AFTER_DISPOSAL { !(m is Handshake) ==> g.dn.phase != Dn::EndedBySink }
        else if k == $GATE_UNREQUESTED { m is Data ==> answered(g) < g.dn.pulls }
        else if k == $GATE_NESTED { !(m is Handshake) ==> g.ddepth == 0 }
        else { true }
    }
    open spec fn post(&self, g: G<T>, m: Message<T, Tok_sink_talkback>) -> G<T> { G { dn: dn_send(g.dn, m), ddepth: g.ddepth + (if m is Terminate || m is Error { 0nat } else { bump(m) }), ..g } }
    open spec fn needs_inv(&self, g: G<T>, m: Message<T, Tok_sink_talkback>, p: int) -> bool { !(m is Terminate || m is Error) }
    open spec fn extra(&self, h: Self::HH, g: G<T>, c: Self::CC, m: Message<T, Tok_sink_talkback>) -> bool { true }
}
impl SinkH {
    /// from_iter delivers `m` to its sink
    #[verifier::exec_allows_no_decreases_clause]
    pub fn call<T>(&self, h: &mut Heap<T>, g: &mut Ghost<G<T>>, c: &Cap, m: Message<T, Tok_sink_talkback>)
        requires
            GATES!(self, *old(h), old(g)@, *c, m),
            self.extra(*old(h), old(g)@, *c, m),
            self.needs_inv(old(g)@, m, $P) ==> INV!(*old(h), self.post(old(g)@, m), *c),
        ensures
            self.needs_inv(old(g)@, m, $P) ==> INV!(*final(h), final(g)@, *c),
            mono(*old(h), G { ddepth: old(g)@.ddepth, ..self.post(old(g)@, m) }, *final(h), final(g)@),
            !self.needs_inv(old(g)@, m, 0) ==> *final(h) == *old(h) && final(g)@ == self.post(old(g)@, m),
    {
        proof { g@ = self.post(g@, m); }
        if matches!(m, Message::Terminate | Message::Error(_)) { return; }  // a terminated sink is silent
        let ghost h0 = *h; let ghost g0 = g@;
        loop
            invariant
                INV!(*h, g@, *c),
                mono(h0, g0, *h, g@),
        {
            if nondet_bool() { break; }
            if ghost_test(Ghost(g@.dn.phase == Dn::Live)) {
                if nondet_bool() {
                    if !c.pullable || ghost_test(Ghost(g@.dn.pulls <= g@.dn.data.len())) {
                        from_iter__sink_talkback(h, g, c, Message::Pull);
                    }
                }
                else if nondet_bool() { from_iter__sink_talkback(h, g, c, Message::Terminate); }
                else { from_iter__sink_talkback(h, g, c, Message::Error(nondet_u64())); }
            }
        }
        proof { g@ = G { ddepth: (g@.ddepth - bump(m)) as nat, ..g@ }; }
    }
}
/// the `loop` closure as a callable token
#[derive(Clone, Copy)] pub struct Tok_r_loop {}
impl Tok_r_loop {
    #[verifier::exec_allows_no_decreases_clause]
    pub fn call<T>(&self, h: &mut Heap<T>, g: &mut Ghost<G<T>>, c: &Cap)
        requires
            INV!(*old(h), old(g)@, *c),
            !old(g)@.loop_active, old(g)@.dn.phase == Dn::Live, old(g)@.ddepth == 0, !old(h).res_done,
        ensures
            INV!(*final(h), final(g)@, *c),
            loop_post(*old(h), old(g)@, *final(h), final(g)@),
    {
        from_iter__r_loop(h, g, c)
    }
}
pub open spec fn loop_post<T>(a: Heap<T>, ga: G<T>, b: Heap<T>, gb: G<T>) -> bool {
    &&& !gb.loop_active && gb.ddepth == 0
    &&& dnl_mono(ga.dn, gb.dn)
    &&& (a.completed ==> b.completed)
    &&& gb.dn.phase != Dn::NotGreeted
    &&& (all_alloc(a) ==> all_alloc(b))
    &&& (!b.got_pull || b.completed || b.res_done)
}

#[verifier::exec_allows_no_decreases_clause]
pub fn from_iter__subscribe<T>(h: &mut Heap<T>, g: &mut Ghost<G<T>>, c: &Cap, message: Message<Never, SinkH>)
    requires
        message is Handshake, old(g)@ == g_init::<T>(),
        none_alloc(*old(h)),
    ensures
        INV!(*final(h), final(g)@, *c),
        all_alloc(*final(h)), /* @C13 iterator position and every flag are allocated per subscription */
        !final(g)@.loop_active && final(g)@.ddepth == 0,
{
    let iter = IterSrc {};
    BODY!("from_iter");
}

#[verifier::exec_allows_no_decreases_clause]
#[verifier::loop_isolation(false)]
pub fn from_iter__r_loop<T>(h: &mut Heap<T>, g: &mut Ghost<G<T>>, c: &Cap)
    requires
        INV!(*old(h), old(g)@, *c),
        !old(g)@.loop_active, old(g)@.dn.phase == Dn::Live, old(g)@.ddepth == 0, !old(h).res_done,
    ensures
        INV!(*final(h), final(g)@, *c),
        loop_post(*old(h), old(g)@, *final(h), final(g)@), /* @C14 every Pull seen by the loop is served before it returns */
{
    let in_loop = Cell_in_loop {}; let got_pull = Cell_got_pull {}; let completed = Cell_completed {}; let res_done = Cell_res_done {};
    let iter = Cell_iter {}; let res = Cell_res {}; let sink = SinkH {};
    proof { g@ = G { loop_active: true, ..g@ }; }
    BODY!("r_loop");
    proof { g@ = G { loop_active: false, ..g@ }; }
}
INVARIANT!("r_loop", 0) {
    invariant
        INV!(*h, g@, *c),
        g@.loop_active, g@.ddepth == 0, dnl_mono(old(g)@.dn, g@.dn), (old(h).completed ==> h.completed), g@.dn.phase != Dn::NotGreeted,
        (all_alloc(*old(h)) ==> all_alloc(*h)),
        !h.res_done, g@.dn.phase == Dn::Live || g@.dn.phase == Dn::EndedBySink,
}

#[verifier::exec_allows_no_decreases_clause]
pub fn from_iter__sink_talkback<T>(h: &mut Heap<T>, g: &mut Ghost<G<T>>, c: &Cap, message: Message<Never, Never>)
    requires
        INV!(*old(h), old(g)@, *c),
        old(g)@.dn.phase == Dn::Live,
        message is Pull || message is Terminate || message is Error,
        message is Pull && c.pullable ==> old(g)@.dn.pulls <= old(g)@.dn.data.len(), // profile P: the sink pulls only when it has no Pull outstanding
    ensures
        INV!(*final(h), final(g)@, *c),
        mono(*old(h), old(g)@, *final(h), final(g)@) || !old(g)@.loop_active, /* @C15 nested handlers do not advance the iterator */
        old(g)@.loop_active ==> mono(*old(h), G { dn: dn_recv(old(g)@.dn, message), ..old(g)@ }, *final(h), final(g)@), /* @C15 nested handlers do not advance the iterator */
        !old(g)@.loop_active ==> !final(g)@.loop_active && dnl_mono(old(g)@.dn, final(g)@.dn) && (old(h).completed ==> final(h).completed) && (old(h).res_done ==> final(h).res_done)
            && final(g)@.ddepth == old(g)@.ddepth && (all_alloc(*old(h)) ==> all_alloc(*final(h))), /* @C02 phases only move forward */
        (message is Terminate || message is Error) ==> final(g)@.next_calls == old(g)@.next_calls && final(g)@.dn.data == old(g)@.dn.data && final(g)@.dn.phase == Dn::EndedBySink, /* @C15 nothing once disposed */
        message is Pull && !old(g)@.loop_active && c.pullable ==> final(g)@.dn.phase != Dn::Live || final(g)@.dn.data.len() == final(g)@.dn.pulls, /* @C14 a top-level Pull is answered before the call returns */
{
    let in_loop = Cell_in_loop {}; let got_pull = Cell_got_pull {}; let completed = Cell_completed {}; let res_done = Cell_res_done {};
    let r_loop = Tok_r_loop {};
    proof { g@ = G { dn: dn_recv(g@.dn, message), ..g@ }; }
    BODY!("sink_talkback");
}

/// Every history of one subscription with a conformant sink is an execution of `world`.
#[verifier::exec_allows_no_decreases_clause]
pub fn world<T>(c: &Cap)
    requires cap_ok(*c)
{
    let mut h: Heap<T> = fresh_heap();
    let mut g: Ghost<G<T>> = Ghost(g_init());
    from_iter__subscribe(&mut h, &mut g, c, Message::Handshake(SinkH {}));
    loop
        invariant
            INV!(h, g@, *c),
            !g@.loop_active, g@.ddepth == 0,
    {
        if ghost_test(Ghost(g@.dn.phase == Dn::Live)) {
            if nondet_bool() {
                if !c.pullable || ghost_test(Ghost(g@.dn.pulls <= g@.dn.data.len())) {
                    from_iter__sink_talkback(&mut h, &mut g, c, Message::Pull);
                }
            }
            else if nondet_bool() { from_iter__sink_talkback(&mut h, &mut g, c, Message::Terminate); }
            else { from_iter__sink_talkback(&mut h, &mut g, c, Message::Error(nondet_u64())); }
        }
    }
}
