pub trait Instrument: Sized { fn instrument(self, _span: tracing::Span) -> Self { self } }
impl<T> Instrument for T {}
