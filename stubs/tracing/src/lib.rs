//! Stub of `tracing` used only to let rustc expand callbag's own macros with `--features tracing`
//! without expanding tracing's internals: every macro becomes one recognisable marker call whose
//! argument expressions stay visible.
pub use tracing_attributes::instrument;
#[derive(Clone, Debug)] pub struct Span;
pub struct Entered; pub struct EnteredSpan;
impl Span {
    pub fn current() -> Span { Span }
    pub fn enter(&self) -> Entered { Entered }
    pub fn entered(self) -> EnteredSpan { EnteredSpan }
    pub fn follows_from(&self, _s: &Span) {}
}
pub fn __verif_event(_a: core::fmt::Arguments<'_>) {}
pub fn __verif_span(_name: &'static str) -> Span { Span }
#[macro_export] macro_rules! trace { ($($arg:tt)+) => { $crate::__verif_event(::core::format_args!($($arg)+)) }; }
#[macro_export] macro_rules! debug { ($($arg:tt)+) => { $crate::__verif_event(::core::format_args!($($arg)+)) }; }
#[macro_export] macro_rules! info { ($($arg:tt)+) => { $crate::__verif_event(::core::format_args!($($arg)+)) }; }
#[macro_export] macro_rules! warn { ($($arg:tt)+) => { $crate::__verif_event(::core::format_args!($($arg)+)) }; }
#[macro_export] macro_rules! error { ($($arg:tt)+) => { $crate::__verif_event(::core::format_args!($($arg)+)) }; }
#[macro_export] macro_rules! event { ($lvl:expr, $($arg:tt)+) => { { let _ = &$lvl; $crate::__verif_event(::core::format_args!($($arg)+)) } }; }
pub struct Level; impl Level { pub const TRACE: Level = Level; pub const DEBUG: Level = Level; pub const INFO: Level = Level; pub const WARN: Level = Level; pub const ERROR: Level = Level; }
#[macro_export] macro_rules! debug_span { (parent: $p:expr, $name:expr) => { { let _ = &$p; $crate::__verif_span($name) } }; ($name:expr) => { $crate::__verif_span($name) }; }
#[macro_export] macro_rules! info_span { (parent: $p:expr, $name:expr) => { { let _ = &$p; $crate::__verif_span($name) } }; ($name:expr) => { $crate::__verif_span($name) }; }
#[macro_export] macro_rules! warn_span { (parent: $p:expr, $name:expr) => { { let _ = &$p; $crate::__verif_span($name) } }; ($name:expr) => { $crate::__verif_span($name) }; }
#[macro_export] macro_rules! error_span { (parent: $p:expr, $name:expr) => { { let _ = &$p; $crate::__verif_span($name) } }; ($name:expr) => { $crate::__verif_span($name) }; }
#[macro_export] macro_rules! trace_span {
    (parent: $p:expr, $name:expr) => { { let _ = &$p; $crate::__verif_span($name) } };
    ($name:expr) => { $crate::__verif_span($name) };
}
