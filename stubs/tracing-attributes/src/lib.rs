use proc_macro::TokenStream;
/// Stub: `#[tracing::instrument(..)]` leaves the item unchanged.
#[proc_macro_attribute]
pub fn instrument(_args: TokenStream, item: TokenStream) -> TokenStream { item }
