//! Sequential stand-in for arc-swap (only the API surface callbag uses).
use std::cell::UnsafeCell;
use std::ops::Deref;
use std::sync::Arc;

pub struct ArcSwapAny<T>(UnsafeCell<T>);
unsafe impl<T: Send> Send for ArcSwapAny<T> {}
unsafe impl<T: Send + Sync> Sync for ArcSwapAny<T> {}
pub type ArcSwap<T> = ArcSwapAny<Arc<T>>;
pub type ArcSwapOption<T> = ArcSwapAny<Option<Arc<T>>>;
pub struct Guard<T>(T);
impl<T> Deref for Guard<T> { type Target = T; fn deref(&self) -> &T { &self.0 } }
impl<T: Clone> ArcSwapAny<T> {
    pub fn new(v: T) -> Self { ArcSwapAny(UnsafeCell::new(v)) }
    pub fn load(&self) -> Guard<T> { Guard(unsafe { (*self.0.get()).clone() }) }
    pub fn load_full(&self) -> T { unsafe { (*self.0.get()).clone() } }
    pub fn store(&self, v: T) { unsafe { *self.0.get() = v; } }
    pub fn swap(&self, v: T) -> T { unsafe { std::mem::replace(&mut *self.0.get(), v) } }
}
impl<T> ArcSwapAny<Arc<T>> {
    pub fn from_pointee(v: T) -> Self { ArcSwapAny(UnsafeCell::new(Arc::new(v))) }
    pub fn rcu<R, F>(&self, mut f: F) -> Arc<T> where F: FnMut(&Arc<T>) -> R, R: Into<Arc<T>> {
        let cur = self.load_full();
        let new: Arc<T> = f(&cur).into();
        self.store(new);
        cur
    }
}
impl<T> From<T> for ArcSwapAny<T> { fn from(v: T) -> Self { ArcSwapAny(UnsafeCell::new(v)) } }
impl<T: Default> Default for ArcSwapAny<T> { fn default() -> Self { ArcSwapAny(UnsafeCell::new(T::default())) } }
