//! weaver: mechanical extraction of callbag-rs handler bodies from rustc's own macro expansion
//! (DESIGN.md §3).  Input: build/expand/<cfg>/expanded.rs.  Output: JSON with one entry per lifted
//! closure (label, parameters, rewritten body text) for one operator.
//!
//! The rewrite rules are R1..R13 of DESIGN.md §3.3.  Anything that does not match a rule is left
//! verbatim (Verus then type-checks it against the shims) or, where a rule would have to guess,
//! reported as `unsupported` (exit code 2 = undecided, never a violation).
use proc_macro2::TokenStream;
use quote::{format_ident, quote, ToTokens};
use std::collections::{BTreeMap, HashMap};
use std::io::Write as _;
use std::process::{Command, Stdio};
use syn::punctuated::Punctuated;
use syn::visit::Visit;
use syn::visit_mut::{self, VisitMut};
use syn::{parse_quote, Block, Expr, Item, Pat, Stmt, Token};

fn ts(e: &impl ToTokens) -> String {
    e.to_token_stream().to_string().replace(' ', "")
}
fn dropped() -> Stmt {
    Stmt::Expr(Expr::Verbatim(TokenStream::new()), None)
}
fn is_dropped(s: &Stmt) -> bool {
    matches!(s, Stmt::Expr(Expr::Verbatim(t), _) if t.is_empty())
}
fn strip_parens(e: &Expr) -> &Expr {
    match e {
        Expr::Paren(p) => strip_parens(&p.expr),
        Expr::Group(g) => strip_parens(&g.expr),
        _ => e,
    }
}
fn path_str(e: &Expr) -> Option<String> {
    if let Expr::Path(p) = strip_parens(e) {
        Some(p.path.segments.iter().map(|s| s.ident.to_string()).collect::<Vec<_>>().join("::"))
    } else {
        None
    }
}
fn single_ident(e: &Expr) -> Option<String> {
    if let Expr::Path(p) = strip_parens(e) {
        if p.path.segments.len() == 1 && p.qself.is_none() {
            return Some(p.path.segments[0].ident.to_string());
        }
    }
    None
}
fn pat_ident(p: &Pat) -> Option<String> {
    match p {
        Pat::Ident(pi) => Some(pi.ident.to_string()),
        Pat::Type(pt) => pat_ident(&pt.pat),
        _ => None,
    }
}
fn clean_ident(s: &str) -> String {
    if let Some(r) = s.strip_prefix("r#") {
        format!("r_{}", r)
    } else {
        s.to_string()
    }
}

// ---------------------------------------------------------------- containment tests
struct Contains<'a> {
    pred: &'a dyn Fn(&Expr) -> bool,
    hit: bool,
}
impl<'a, 'ast> Visit<'ast> for Contains<'a> {
    fn visit_expr(&mut self, e: &'ast Expr) {
        if self.hit {
            return;
        }
        if (self.pred)(e) {
            self.hit = true;
            return;
        }
        if matches!(e, Expr::Closure(_) | Expr::Async(_)) {
            return;
        }
        syn::visit::visit_expr(self, e);
    }
}
fn contains(e: &Expr, pred: &dyn Fn(&Expr) -> bool) -> bool {
    let mut c = Contains { pred, hit: false };
    c.visit_expr(e);
    c.hit
}
fn mentions_path(e: &Expr, needle: &str) -> bool {
    // a call / path mentioning `needle`, not looking inside closures
    contains(e, &|x: &Expr| match x {
        Expr::Path(_) => ts(x).contains(needle),
        _ => false,
    })
}
fn is_h_call(e: &Expr) -> bool {
    let first = match e {
        Expr::MethodCall(m) => m.args.first(),
        Expr::Call(c) => c.args.first(),
        _ => None,
    };
    matches!(first.and_then(single_ident).as_deref(), Some("h"))
}
fn contains_h_call(e: &Expr) -> bool {
    contains(e, &is_h_call)
}

// ---------------------------------------------------------------- closure containers (R6)
enum Found<'a> {
    Closure(&'a syn::ExprClosure),
    Async(&'a syn::ExprAsync),
}
fn alias_let(s: &Stmt) -> bool {
    // `let x = Arc::clone(&x);` / `let x = x.clone();` / span bookkeeping / empty statement
    if is_dropped(s) {
        return true;
    }
    if let Stmt::Local(l) = s {
        if let (Some(name), Some(init)) = (pat_ident(&l.pat), &l.init) {
            let rhs = ts(&init.expr);
            if rhs == format!("Arc::clone(&{})", name) || rhs == format!("{}.clone()", name) {
                return true;
            }
        }
    }
    false
}
fn find_closure(e: &Expr) -> Option<Found<'_>> {
    match e {
        Expr::Closure(c) if c.capture.is_some() => Some(Found::Closure(c)),
        Expr::Async(a) => Some(Found::Async(a)),
        Expr::Block(b) if b.label.is_none() => {
            let n = b.block.stmts.len();
            if n == 0 {
                return None;
            }
            if !b.block.stmts[..n - 1].iter().all(alias_let) {
                return None;
            }
            if let Stmt::Expr(e, None) = &b.block.stmts[n - 1] {
                find_closure(e)
            } else {
                None
            }
        }
        Expr::MethodCall(m) if m.method == "into" && m.args.is_empty() => find_closure(&m.receiver),
        Expr::Paren(p) => find_closure(&p.expr),
        Expr::Group(g) => find_closure(&g.expr),
        Expr::Call(c) => {
            let f = ts(&c.func);
            if (f == "Arc::new" || f == "Box::new") && c.args.len() == 1 {
                find_closure(&c.args[0])
            } else {
                None
            }
        }
        _ => None,
    }
}
fn span_label_in_stmts(stmts: &[Stmt]) -> Option<String> {
    struct F(Option<String>);
    impl<'ast> Visit<'ast> for F {
        fn visit_expr(&mut self, e: &'ast Expr) {
            if self.0.is_some() {
                return;
            }
            if matches!(e, Expr::Closure(_) | Expr::Async(_)) {
                return;
            }
            if let Expr::Call(c) = e {
                if ts(&c.func).ends_with("__verif_span") {
                    if let Some(Expr::Lit(l)) = c.args.first() {
                        if let syn::Lit::Str(s) = &l.lit {
                            self.0 = Some(s.value());
                            return;
                        }
                    }
                }
            }
            syn::visit::visit_expr(self, e);
        }
    }
    let mut f = F(None);
    for s in stmts {
        f.visit_stmt(s);
        if f.0.is_some() {
            break;
        }
    }
    f.0
}

// ---------------------------------------------------------------- the rewriter
#[derive(Default, Clone)]
struct Handler {
    label: String,
    kind: String,
    params: Vec<String>,
    body: Vec<Stmt>,
    cells: Vec<(String, String)>,
    trace_events: usize,
    loops: usize,
    closures: Vec<String>, // closure literals left in the body (no rule consumed them)
}
#[derive(Default)]
struct Ctx {
    scopes: Vec<HashMap<String, bool>>, // name -> is a RwLock write guard
    cells: Vec<(String, String)>,
    trace_events: usize,
    loops: usize,
    temps: usize,
}
struct Rewriter {
    labels_in: Option<Vec<String>>, // final labels by pre-order index (second pass)
    guesses: Vec<String>,           // labels discovered, pre-order (first pass)
    next_idx: usize,
    out: Vec<Handler>,
    ctx: Ctx,
    current_let: Option<String>,
    unsupported: Vec<String>,
    interfere: bool,
    arc_vars: std::collections::HashSet<String>, // `let x = CELL.load_full();`: x is an Arc of the content
}
const CELL_OPS: &[&str] = &["load", "store", "fetch_add", "fetch_sub", "swap", "compare_exchange", "compare_exchange_weak", "fetch_or", "fetch_and", "fetch_max", "fetch_min", "load_full"];

impl Rewriter {
    fn new(labels_in: Option<Vec<String>>) -> Self {
        Rewriter { labels_in, guesses: vec![], next_idx: 0, out: vec![], ctx: Ctx::default(), current_let: None, unsupported: vec![], interfere: false, arc_vars: Default::default() }
    }
    fn is_guard(&self, name: &str) -> bool {
        for s in self.ctx.scopes.iter().rev() {
            if let Some(b) = s.get(name) {
                return *b;
            }
        }
        false
    }
    fn bind(&mut self, name: &str, guard: bool) {
        if let Some(s) = self.ctx.scopes.last_mut() {
            s.insert(name.to_string(), guard);
        }
    }
    fn lift(&mut self, params: Vec<String>, body_stmts: Vec<Stmt>, kind: &str, fallback: String) -> String {
        let idx = self.next_idx;
        self.next_idx += 1;
        let guess = span_label_in_stmts(&body_stmts).unwrap_or(fallback);
        self.guesses.push(guess.clone());
        let label = match &self.labels_in {
            Some(v) => v.get(idx).cloned().unwrap_or_else(|| format!("extra{}", idx)),
            None => format!("{}__{}", guess, idx),
        };
        let slot = self.out.len();
        self.out.push(Handler { label: label.clone(), kind: kind.to_string(), params, ..Default::default() });
        let saved = std::mem::take(&mut self.ctx);
        let saved_let = self.current_let.take();
        let mut blk = Block { brace_token: Default::default(), stmts: body_stmts };
        self.visit_block_mut(&mut blk);
        let mut h = Hoister { n: 0, unsupported: vec![] };
        h.block(&mut blk);
        // a closure literal that no rule has consumed is handed to a function the verifier knows nothing about:
        // obligations that depend on it would fail for no reason, so the unit is left undecided instead
        let mut cf = ClosureFinder { found: vec![] };
        cf.visit_block(&blk);
        let unmodelled = cf.found;
        if self.interfere {
            let mut itf = Interferer { unsupported: vec![], conds: 0 };
            itf.visit_block_mut(&mut blk);
            h.unsupported.extend(itf.unsupported);
        }
        self.unsupported.extend(h.unsupported.into_iter().map(|u| format!("{}: {}", label, u)));
        let ctx = std::mem::replace(&mut self.ctx, saved);
        self.current_let = saved_let;
        let hd = &mut self.out[slot];
        hd.body = blk.stmts;
        hd.cells = ctx.cells;
        hd.trace_events = ctx.trace_events;
        hd.loops = ctx.loops;
        hd.closures = unmodelled;
        label
    }
    fn next_loop(&mut self) -> usize {
        let k = self.ctx.loops;
        self.ctx.loops += 1;
        k
    }
}

fn cell_ctor(e: &Expr, ty: Option<&syn::Type>) -> Option<(String, Vec<Expr>)> {
    // returns (kind, initial-value args)
    match strip_parens(e) {
        Expr::Call(c) => {
            let f = ts(&c.func);
            if f == "Arc::new" && c.args.len() == 1 {
                return cell_ctor(&c.args[0], ty);
            }
            let kinds = [
                ("AtomicUsize::new", "atomic_usize"),
                ("AtomicBool::new", "atomic_bool"),
                ("ArcSwapOption::from", "swap_option"),
                ("ArcSwap::from_pointee", "swap"),
                ("RwLock::new", "rwlock"),
            ];
            for (k, kind) in kinds {
                if f == k && c.args.len() == 1 {
                    return Some((kind.to_string(), vec![c.args[0].clone()]));
                }
            }
            if f == "Default::default" && c.args.is_empty() {
                if let Some(t) = ty {
                    if ts(t).contains("ArcSwap") {
                        return Some(("default".to_string(), vec![]));
                    }
                }
            }
            None
        }
        // merge: `{ let mut v = Vec::with_capacity(n); v.resize_with(n, || CTOR); v }`
        Expr::Block(b) => {
            for s in &b.block.stmts {
                if let Stmt::Expr(Expr::MethodCall(m), _) = s {
                    if m.method == "resize_with" && m.args.len() == 2 {
                        if let Expr::Closure(c) = &m.args[1] {
                            if let Some((kind, init)) = cell_ctor(&c.body, None) {
                                let mut a = vec![m.args[0].clone()];
                                a.extend(init);
                                return Some((format!("vec_{}", kind), a));
                            }
                        }
                    }
                }
            }
            None
        }
        _ => None,
    }
}
fn guard_source(e: &Expr) -> Option<Expr> {
    // `[&mut *] X.write().unwrap()`  ->  X
    let mut e = strip_parens(e);
    if let Expr::Reference(r) = e {
        e = strip_parens(&r.expr);
    }
    if let Expr::Unary(u) = e {
        if matches!(u.op, syn::UnOp::Deref(_)) {
            e = strip_parens(&u.expr);
        }
    }
    if let Expr::MethodCall(m) = e {
        if m.method == "unwrap" && m.args.is_empty() {
            if let Expr::MethodCall(w) = strip_parens(&m.receiver) {
                if (w.method == "write" || w.method == "read") && w.args.is_empty() {
                    return Some((*w.receiver).clone());
                }
            }
        }
    }
    None
}
fn is_span_stmt_init(name: &str, init: &Expr) -> bool {
    if mentions_path(init, "__verif_span") || mentions_path(init, "Span::current") {
        return true;
    }
    if let Expr::MethodCall(m) = strip_parens(init) {
        if (m.method == "enter" || m.method == "entered") && m.args.is_empty() {
            return true;
        }
        if m.method == "clone" && m.args.is_empty() {
            if let Some(r) = single_ident(&m.receiver) {
                if r.ends_with("_span") && name.ends_with("_span") {
                    return true;
                }
            }
        }
    }
    false
}

impl VisitMut for Rewriter {
    fn visit_ident_mut(&mut self, i: &mut proc_macro2::Ident) {
        let s = i.to_string();
        if s.starts_with("r#") {
            *i = format_ident!("{}", clean_ident(&s));
        }
    }
    fn visit_block_mut(&mut self, b: &mut Block) {
        self.ctx.scopes.push(HashMap::new());
        for s in b.stmts.iter_mut() {
            self.visit_stmt_mut(s);
        }
        b.stmts.retain(|s| !is_dropped(s));
        // a loop statement gets an explicit `;` (Verus rejects a loop body that is directly followed by a block)
        for s in b.stmts.iter_mut() {
            if let Stmt::Expr(e, semi @ None) = s {
                let is_loop = match e {
                    Expr::ForLoop(_) | Expr::While(_) | Expr::Loop(_) => true,
                    Expr::Block(bb) => bb.block.stmts.len() == 2 && matches!(bb.block.stmts.last(), Some(Stmt::Expr(Expr::ForLoop(_), _))),
                    _ => false,
                };
                if is_loop {
                    *semi = Some(Default::default());
                }
            }
        }
        self.ctx.scopes.pop();
    }
    fn visit_stmt_mut(&mut self, s: &mut Stmt) {
        match s {
            Stmt::Local(l) => {
                let name = pat_ident(&l.pat);
                let ty: Option<syn::Type> = if let Pat::Type(pt) = &l.pat { Some((*pt.ty).clone()) } else { None };
                // R13: type annotations are dropped (they mention Arc/Source/ArcSwap)
                if let Pat::Type(pt) = &l.pat {
                    l.pat = (*pt.pat).clone();
                }
                if let (Some(name), Some(init)) = (name.clone(), l.init.clone()) {
                    let rhs = ts(&init.expr);
                    if is_span_stmt_init(&name, &init.expr) {
                        *s = dropped();
                        return;
                    }
                    if rhs == format!("Arc::clone(&{})", name) {
                        *s = dropped(); // R3: an alias of the same Arc (a data `.clone()` is kept: R10)
                        return;
                    }
                    if let Some((kind, args)) = cell_ctor(&init.expr, ty.as_ref()) {
                        // R4a
                        let mut args = args;
                        for a in args.iter_mut() {
                            self.visit_expr_mut(a);
                        }
                        let cname = clean_ident(&name);
                        let cell = format_ident!("Cell_{}", cname);
                        let id = format_ident!("{}", cname);
                        self.ctx.cells.push((cname.clone(), kind));
                        *s = parse_quote! { let #id = #cell::alloc(h, #(#args),*); };
                        self.bind(&name, false);
                        return;
                    }
                    if let Some(src) = guard_source(&init.expr) {
                        // R4d
                        let mut src = src;
                        self.visit_expr_mut(&mut src);
                        let id = format_ident!("{}", clean_ident(&name));
                        *s = parse_quote! { let #id = #src.write_guard(); };
                        self.bind(&name, true);
                        return;
                    }
                }
                if let (Some(n), Some(init)) = (&name, &l.init) {
                    if let Expr::MethodCall(m) = strip_parens(&init.expr) {
                        // (`load()` without an ordering argument is an arc-swap load: its guard derefs to the content)
                        if (m.method == "load_full" || m.method == "load") && m.args.is_empty() {
                            self.arc_vars.insert(n.clone());
                        }
                        // (`swap(new)` with one argument is an arc-swap swap: it yields the Arc of the previous content)
                        if m.method == "swap" && m.args.len() == 1 {
                            self.arc_vars.insert(n.clone());
                        }
                    }
                    // `let x = Arc::new(E);`: the Arc layer is dropped, so is a later `*x`
                    if let Expr::Call(c) = strip_parens(&init.expr) {
                        if ts(&c.func) == "Arc::new" && c.args.len() == 1 {
                            self.arc_vars.insert(n.clone());
                        }
                    }
                }
                let saved = self.current_let.take();
                self.current_let = name.clone();
                visit_mut::visit_local_mut(self, l);
                self.current_let = saved;
                if let Some(name) = name {
                    self.bind(&name, false);
                }
            }
            Stmt::Item(Item::Const(c)) => {
                // `const N: usize = E;` inside a handler body -> `let N: usize = E;`
                let id = &c.ident;
                let ty = &c.ty;
                let e = &c.expr;
                *s = parse_quote! { let #id: #ty = #e; };
            }
            Stmt::Expr(e, _) => {
                // span bookkeeping statements
                if let Expr::MethodCall(m) = strip_parens(e) {
                    if m.method == "follows_from" {
                        *s = dropped();
                        return;
                    }
                }
                // `*G = e` on a guard (R4d)
                if let Expr::Assign(a) = e {
                    if let Expr::Unary(u) = strip_parens(&a.left) {
                        if matches!(u.op, syn::UnOp::Deref(_)) {
                            if let Some(gn) = single_ident(&u.expr) {
                                if self.is_guard(&gn) {
                                    let mut rhs = (*a.right).clone();
                                    self.visit_expr_mut(&mut rhs);
                                    let id = format_ident!("{}", clean_ident(&gn));
                                    *e = parse_quote! { #id.set(h, g, c, #rhs) };
                                    return;
                                }
                            }
                        }
                    }
                }
                self.visit_expr_mut(e);
                if let Expr::Verbatim(t) = e {
                    if t.is_empty() {
                        *s = dropped();
                    }
                }
            }
            _ => visit_mut::visit_stmt_mut(self, s),
        }
    }
    fn visit_expr_mut(&mut self, e: &mut Expr) {
        // ---------- pre-order rules
        // R1 panic
        if let Expr::Call(c) = e {
            let f = ts(&c.func);
            if f.ends_with("panicking::panic_fmt") {
                if let Some(Expr::Macro(m)) = c.args.first() {
                    let toks = m.mac.tokens.clone();
                    *e = Expr::Verbatim(quote! { panic!(#toks) });
                    return;
                }
            }
            // R2 trace events: the argument expressions stay evaluated
            if f.ends_with("__verif_event") {
                if let Some(Expr::Macro(m)) = c.args.first() {
                    let args = m.mac.parse_body_with(Punctuated::<Expr, Token![,]>::parse_terminated);
                    match args {
                        Ok(args) => {
                            let mut rest: Vec<Expr> = args.into_iter().skip(1).collect();
                            for a in rest.iter_mut() {
                                if let Expr::Assign(asg) = a {
                                    *a = (*asg.right).clone();
                                }
                                self.visit_expr_mut(a);
                            }
                            self.ctx.trace_events += 1;
                            *e = parse_quote! { { #( trace_event(&(#rest)); )* } };
                        }
                        Err(_) => self.unsupported.push("format_args! in trace event did not parse".into()),
                    }
                    return;
                }
            }
        }
        // R4c rcu
        if let Expr::MethodCall(m) = e {
            if m.method == "rcu" && m.args.len() == 1 {
                let mut recv = (*m.receiver).clone();
                self.visit_expr_mut(&mut recv);
                let clo = match strip_container(&m.args[0]) {
                    Some(c) => c.clone(),
                    None => {
                        self.unsupported.push("rcu argument is not a closure".into());
                        return;
                    }
                };
                let p = clo.inputs.first().and_then(pat_ident).unwrap_or_else(|| "v".into());
                let pid = format_ident!("{}", p);
                let mut body = (*clo.body).clone();
                // `**param` -> `*param` (the Arc layer is dropped)
                StripArcDeref { name: p.clone() }.visit_expr_mut(&mut body);
                self.visit_expr_mut(&mut body);
                // one atomic read-copy-update step (the closure is pure; arc-swap retries it until its
                // compare-and-swap succeeds); the value of the expression is the previous content
                *e = parse_quote! { atomic({ let __old = #recv.load(h); let __new = { let #pid = &__old; #body }; #recv.store(h, __new); __old }) };
                return;
            }
            // R16 `b.then(|| E)` / `b.then_some(E)`: the verifier knows nothing about a closure handed to a library
            // function, so the conditional is spelled out (lazy, resp. eager, evaluation of E is kept)
            if m.method == "then" && m.args.len() == 1 {
                if let Some(clo) = strip_container(&m.args[0]) {
                    if clo.inputs.is_empty() {
                        let mut recv = (*m.receiver).clone();
                        self.visit_expr_mut(&mut recv);
                        let mut body = (*clo.body).clone();
                        self.visit_expr_mut(&mut body);
                        *e = parse_quote! { (if #recv { Some(#body) } else { None }) };
                        return;
                    }
                }
            }
            if m.method == "then_some" && m.args.len() == 1 {
                let mut recv = (*m.receiver).clone();
                self.visit_expr_mut(&mut recv);
                let mut arg = m.args[0].clone();
                self.visit_expr_mut(&mut arg);
                *e = parse_quote! { ({ let __c = #recv; let __t = #arg; if __c { Some(__t) } else { None } }) };
                return;
            }
            // R4f `X.fetch_update(set_order, fetch_order, |p| B)`: one atomic read-modify-write step
            if m.method == "fetch_update" && m.args.len() == 3 {
                let mut recv = (*m.receiver).clone();
                self.visit_expr_mut(&mut recv);
                let (o1, o2) = (m.args[0].clone(), m.args[1].clone());
                let clo = match strip_container(&m.args[2]) {
                    Some(c) => c.clone(),
                    None => {
                        self.unsupported.push("fetch_update argument is not a closure".into());
                        return;
                    }
                };
                let p = clo.inputs.first().and_then(pat_ident).unwrap_or_else(|| "v".into());
                let pid = format_ident!("{}", p);
                let mut body = (*clo.body).clone();
                self.visit_expr_mut(&mut body);
                *e = parse_quote! { atomic({ let __cell = #recv; let #pid = __cell.load(h, #o2); let __upd = #body; match __upd { Some(__n) => { __cell.store(h, __n, #o1); Ok(#pid) } None => Err(#pid) } }) };
                return;
            }
            // R8 any(ptr_eq): membership by identity
            if m.method == "any" && m.args.len() == 1 {
                if let Expr::MethodCall(it) = strip_parens(&m.receiver) {
                    if it.method == "iter" {
                        if let Some(clo) = strip_container(&m.args[0]) {
                            if let Expr::Call(pc) = strip_parens(&clo.body) {
                                if ts(&pc.func) == "Arc::ptr_eq" && pc.args.len() == 2 {
                                    let p = clo.inputs.first().and_then(pat_ident).unwrap_or_default();
                                    let (a0, a1) = (ts(&pc.args[0]), ts(&pc.args[1]));
                                    let other = if a0 == p { Some(pc.args[1].clone()) } else if a1 == p { Some(pc.args[0].clone()) } else { None };
                                    if let Some(other) = other {
                                        let mut recv = (*it.receiver).clone();
                                        self.visit_expr_mut(&mut recv);
                                        let other: Expr = match other { Expr::Reference(r) => (*r.expr).clone(), o => o };
                                        *e = parse_quote! { #recv.any_ptr_eq(&#other) };
                                        return;
                                    }
                                }
                            }
                        }
                    }
                }
            }
            // R8 position(ptr_eq)
            if m.method == "position" && m.args.len() == 1 {
                if let Expr::MethodCall(it) = strip_parens(&m.receiver) {
                    if it.method == "iter" {
                        if let Some(clo) = strip_container(&m.args[0]) {
                            if let Expr::Call(pc) = strip_parens(&clo.body) {
                                if ts(&pc.func) == "Arc::ptr_eq" && pc.args.len() == 2 {
                                    let p = clo.inputs.first().and_then(pat_ident).unwrap_or_default();
                                    let (a0, a1) = (ts(&pc.args[0]), ts(&pc.args[1]));
                                    let other = if a0 == p { pc.args[1].clone() } else if a1 == p { pc.args[0].clone() } else {
                                        self.unsupported.push("position closure does not compare its parameter".into());
                                        return;
                                    };
                                    let mut recv = (*it.receiver).clone();
                                    self.visit_expr_mut(&mut recv);
                                    // (as for `any`: the compared handle may be a reference already, e.g. a loop variable)
                                    let other: Expr = match other { Expr::Reference(r) => (*r.expr).clone(), o => o };
                                    *e = parse_quote! { #recv.position_ptr_eq(&#other) };
                                    return;
                                }
                            }
                        }
                    }
                }
                self.unsupported.push("position() with an unrecognised closure".into());
                return;
            }
            // share: `splice(a..b, iter::empty())`
            if m.method == "splice" && m.args.len() == 2 {
                if let Expr::Range(r) = strip_parens(&m.args[0]) {
                    if ts(&m.args[1]).ends_with("iter::empty()") {
                        if let (Some(a), Some(b)) = (&r.start, &r.end) {
                            let mut recv = (*m.receiver).clone();
                            self.visit_expr_mut(&mut recv);
                            *e = parse_quote! { #recv.splice_empty(#a, #b) };
                            return;
                        }
                    }
                }
                self.unsupported.push("splice() other than (a..b, iter::empty())".into());
                return;
            }
        }
        // R8 `V.extend(W.iter().cloned())`: append a copy of another list
        if let Expr::MethodCall(m) = e {
            if m.method == "extend" && m.args.len() == 1 {
                if let Expr::MethodCall(c1) = strip_parens(&m.args[0]) {
                    if c1.method == "cloned" && c1.args.is_empty() {
                        if let Expr::MethodCall(c2) = strip_parens(&c1.receiver) {
                            if c2.method == "iter" && c2.args.is_empty() {
                                let mut recv = (*m.receiver).clone();
                                self.visit_expr_mut(&mut recv);
                                let mut other = (*c2.receiver).clone();
                                self.visit_expr_mut(&mut other);
                                *e = parse_quote! { #recv.extend_from(&#other) };
                                return;
                            }
                        }
                    }
                }
            }
        }
        // R7 await
        if let Expr::Await(a) = e {
            let mut base = (*a.base).clone();
            self.visit_expr_mut(&mut base);
            *e = parse_quote! { #base.await_(h, g, c) };
            return;
        }
        // R6 closure literal -> token
        if let Some(found) = find_closure(e) {
            let (params, body, kind, fallback) = match found {
                Found::Closure(c) => {
                    let params: Vec<String> = c.inputs.iter().map(|p| pat_ident(p).unwrap_or_else(|| "_".into())).collect();
                    let body = match &*c.body {
                        Expr::Block(b) => b.block.stmts.clone(),
                        other => vec![Stmt::Expr(other.clone(), None)],
                    };
                    let fb = if params.len() == 1 && params[0] == "source" {
                        "apply".to_string()
                    } else if params.is_empty() {
                        self.current_let.clone().map(|s| clean_ident(&s)).unwrap_or_else(|| "thunk".into())
                    } else {
                        "anon".to_string()
                    };
                    (params, body, "closure", fb)
                }
                Found::Async(a) => (vec![], a.block.stmts.clone(), "async", "async_task".to_string()),
            };
            let label = self.lift(params, body, kind, fallback);
            let tok = format_ident!("Tok_{}", label);
            *e = parse_quote! { #tok {} };
            return;
        }
        // loops: ordinal + invariant marker, `for x in <cells>` -> index loop (R4e)
        match e {
            Expr::ForLoop(f) => {
                let k = self.next_loop();
                let kk = syn::Index::from(k);
                if matches!(strip_parens(&f.expr), Expr::Range(_)) {
                    self.visit_expr_mut(&mut f.expr);
                    self.visit_block_mut(&mut f.body);
                    f.body.stmts = elim_continue(std::mem::take(&mut f.body.stmts)); // R17
                    f.body.stmts.insert(0, parse_quote! { __inv!(#kk); });
                } else {
                    let mut it = (*f.expr).clone();
                    self.visit_expr_mut(&mut it);
                    let mut it = strip_parens(&it).clone();
                    if let Expr::Reference(r) = &it {
                        it = strip_parens(&r.expr).clone();
                    }
                    if let Expr::MethodCall(m) = &it {
                        if m.method == "iter" && m.args.is_empty() {
                            it = (*m.receiver).clone();
                        }
                    }
                    let pat = f.pat.clone();
                    let mut body = f.body.clone();
                    self.visit_block_mut(&mut body);
                    // R17 `if C { continue; }` at the top level of the loop body: the rest of the body runs under `!C`
                    // (the verifier has no `continue` in for-loops)
                    body.stmts = elim_continue(std::mem::take(&mut body.stmts));
                    let itn = format_ident!("__it{}", k);
                    let kn = format_ident!("__k{}", k);
                    let stmts = &body.stmts;
                    // a plain variable is iterated by reference (it may be used again inside the loop)
                    if matches!(it, Expr::Path(_)) {
                        it = parse_quote! { &#it };
                    }
                    *e = parse_quote! { { let #itn = #it; for #kn in 0..#itn.len() { __inv!(#kk); let #pat = #itn.at(#kn); #(#stmts)* } } };
                }
                return;
            }
            Expr::While(w) => {
                let k = self.next_loop();
                let kk = syn::Index::from(k);
                self.visit_expr_mut(&mut w.cond);
                self.visit_block_mut(&mut w.body);
                w.body.stmts.insert(0, parse_quote! { __inv!(#kk); });
                return;
            }
            Expr::Loop(l) => {
                let k = self.next_loop();
                let kk = syn::Index::from(k);
                self.visit_block_mut(&mut l.body);
                l.body.stmts.insert(0, parse_quote! { __inv!(#kk); });
                return;
            }
            _ => {}
        }
        // R14: `A | B if guard => body` -> one arm per alternative (Verus has no or-pattern with a guard;
        // equivalent because the alternatives are distinct enum variants)
        if let Expr::Match(m) = e {
            let mut arms = vec![];
            for arm in m.arms.drain(..) {
                match (&arm.pat, &arm.guard) {
                    (Pat::Or(po), Some(_)) => {
                        for alt in po.cases.iter() {
                            let mut a = arm.clone();
                            a.pat = alt.clone();
                            arms.push(a);
                        }
                    }
                    _ => arms.push(arm),
                }
            }
            m.arms = arms;
        }
        // ---------- default descent
        visit_mut::visit_expr_mut(self, e);
        // ---------- post-order rules
        match e {
            Expr::MethodCall(m) => {
                let meth = m.method.to_string();
                let recv_guard = single_ident(&m.receiver).map(|r| self.is_guard(&r)).unwrap_or(false);
                if recv_guard {
                    m.args.insert(0, parse_quote!(c));
                    m.args.insert(0, parse_quote!(g));
                    m.args.insert(0, parse_quote!(h));
                } else if CELL_OPS.contains(&meth.as_str()) {
                    m.args.insert(0, parse_quote!(h)); // R4
                } else if meth == "nurse" {
                    m.args.insert(0, parse_quote!(c));
                    m.args.insert(0, parse_quote!(g));
                    m.args.insert(0, parse_quote!(h));
                } else if meth == "clone" && m.args.is_empty() {
                    let r = &m.receiver; // R10
                    *e = parse_quote! { clone_val(&#r) };
                }
            }
            Expr::Unary(u) if matches!(u.op, syn::UnOp::Deref(_)) => {
                // R4b: guards of ArcSwap loads are snapshots
                let inner = strip_parens(&u.expr).clone();
                if let Expr::MethodCall(m) = &inner {
                    if m.method == "load" {
                        *e = inner.clone();
                    }
                } else if let Some(n) = single_ident(&inner) {
                    // R4b': `*x` where `let x = CELL.load_full();` (the Arc layer is dropped)
                    if self.arc_vars.contains(&n) {
                        *e = inner.clone();
                    }
                }
            }
            Expr::Index(ix) => {
                let (b, i) = (&ix.expr, &ix.index);
                *e = parse_quote! { #b.at(#i) };
            }
            Expr::Call(c) => {
                let fs = ts(&c.func);
                if fs == "Arc::clone" && c.args.len() == 1 {
                    let a = &c.args[0];
                    // (an Arc of a plain value, `let x = Arc::new(E)` / `CELL.load_full()`: the alias is an equal value)
                    if let Expr::Reference(r) = strip_parens(a) {
                        if let Some(n) = single_ident(strip_parens(&r.expr)) {
                            if self.arc_vars.contains(&n) {
                                *e = parse_quote! { clone_val(#a) };
                                return;
                            }
                        }
                    }
                    *e = parse_quote! { arc_clone(#a) }; // R3
                    return;
                }
                if (fs == "Arc::new" || fs == "Box::new") && c.args.len() == 1 {
                    *e = c.args[0].clone(); // R3: the Arc layer is dropped
                    return;
                }
                if fs.ends_with("Vec::new") && c.args.is_empty() {
                    *e = parse_quote! { VecS::new() };
                    return;
                }
                // R5 peer / user-closure calls
                let peer = match strip_parens(&c.func) {
                    Expr::Path(_) => single_ident(&c.func).map(|id| id.chars().next().map(|ch| ch.is_lowercase() || ch == '_').unwrap_or(false)).unwrap_or(false),
                    Expr::MethodCall(m) => m.method == "at",
                    Expr::Block(_) | Expr::Field(_) => true,
                    _ => false,
                };
                if peer {
                    let f = strip_parens(&c.func).clone();
                    let args = &c.args;
                    let f: Expr = if matches!(f, Expr::Block(_)) { parse_quote! { (#f) } } else { f };
                    *e = if args.is_empty() { parse_quote! { #f.call(h, g, c) } } else { parse_quote! { #f.call(h, g, c, #args) } };
                }
            }
            _ => {}
        }
    }
}
struct StripArcDeref {
    name: String,
}
impl VisitMut for StripArcDeref {
    fn visit_expr_mut(&mut self, e: &mut Expr) {
        visit_mut::visit_expr_mut(self, e);
        if let Expr::Unary(u) = e {
            if matches!(u.op, syn::UnOp::Deref(_)) {
                if let Expr::Unary(u2) = strip_parens(&u.expr) {
                    if matches!(u2.op, syn::UnOp::Deref(_)) && single_ident(&u2.expr).as_deref() == Some(&self.name) {
                        *e = strip_parens(&u.expr).clone();
                    }
                }
            }
        }
    }
}
fn strip_container(e: &Expr) -> Option<&syn::ExprClosure> {
    match e {
        Expr::Closure(c) => Some(c),
        Expr::Paren(p) => strip_container(&p.expr),
        Expr::Block(b) => {
            let n = b.block.stmts.len();
            if n == 0 || !b.block.stmts[..n - 1].iter().all(alias_let) {
                return None;
            }
            if let Stmt::Expr(e, None) = &b.block.stmts[n - 1] {
                strip_container(e)
            } else {
                None
            }
        }
        _ => None,
    }
}

// ---------------------------------------------------------------- R9 hoisting
struct Hoister {
    n: usize,
    unsupported: Vec<String>,
}
impl Hoister {
    fn block(&mut self, b: &mut Block) {
        let mut out: Vec<Stmt> = vec![];
        for mut s in std::mem::take(&mut b.stmts) {
            let mut pre: Vec<Stmt> = vec![];
            match &mut s {
                Stmt::Local(l) => {
                    if let Some(init) = &mut l.init {
                        self.expr(&mut init.expr, &mut pre, true);
                        if let Some((_, d)) = &mut init.diverge {
                            self.expr(d, &mut pre, false);
                        }
                    }
                }
                Stmt::Expr(e, _) => self.expr(e, &mut pre, true),
                _ => {}
            }
            out.extend(pre);
            out.push(s);
        }
        b.stmts = out;
    }
    fn temp(&mut self, e: &mut Expr, pre: &mut Vec<Stmt>) {
        let id = format_ident!("__t{}", self.n);
        self.n += 1;
        let old = std::mem::replace(e, parse_quote!(#id));
        pre.push(parse_quote! { let #id = #old; });
    }
    /// `uncond`: the expression is evaluated exactly once, before anything else of the statement
    /// that follows it in evaluation order -> temporaries may be placed before the statement.
    fn expr(&mut self, e: &mut Expr, pre: &mut Vec<Stmt>, uncond: bool) {
        match e {
            Expr::Closure(_) | Expr::Async(_) => {}
            Expr::Block(b) => self.block(&mut b.block),
            Expr::Unsafe(b) => self.block(&mut b.block),
            Expr::If(i) => {
                self.expr(&mut i.cond, pre, uncond);
                self.block(&mut i.then_branch);
                if let Some((_, el)) = &mut i.else_branch {
                    self.expr(el, pre, false);
                }
            }
            Expr::Let(l) => self.expr(&mut l.expr, pre, uncond),
            Expr::Match(m) => {
                self.expr(&mut m.expr, pre, uncond);
                for arm in m.arms.iter_mut() {
                    self.expr(&mut arm.body, pre, false);
                }
            }
            Expr::ForLoop(f) => {
                self.expr(&mut f.expr, pre, uncond);
                self.block(&mut f.body);
            }
            Expr::While(w) => {
                self.expr(&mut w.cond, pre, false);
                self.block(&mut w.body);
            }
            Expr::Loop(l) => self.block(&mut l.body),
            Expr::Binary(b) => {
                let lazy = matches!(b.op, syn::BinOp::And(_) | syn::BinOp::Or(_));
                self.expr(&mut b.left, pre, uncond);
                self.expr(&mut b.right, pre, uncond && !lazy);
            }
            Expr::MethodCall(m) => {
                self.expr(&mut m.receiver, pre, uncond);
                for a in m.args.iter_mut() {
                    self.expr(a, pre, uncond);
                }
                let takes_h = matches!(m.args.first().and_then(single_ident).as_deref(), Some("h"));
                if takes_h && m.args.iter().any(contains_h_call) {
                    if !uncond {
                        self.unsupported.push(format!("nested heap access in a conditionally evaluated position: {}", ts(m)));
                        return;
                    }
                    if contains_h_call(&m.receiver) {
                        self.temp(&mut m.receiver, pre);
                    }
                    for a in m.args.iter_mut() {
                        if contains_h_call(a) {
                            self.temp(a, pre);
                        }
                    }
                }
            }
            Expr::Call(c) => {
                for a in c.args.iter_mut() {
                    self.expr(a, pre, uncond);
                }
                let takes_h = matches!(c.args.first().and_then(single_ident).as_deref(), Some("h"));
                if takes_h && c.args.iter().any(contains_h_call) {
                    if !uncond {
                        self.unsupported.push(format!("nested heap access in a conditionally evaluated position: {}", ts(c)));
                        return;
                    }
                    for a in c.args.iter_mut() {
                        if contains_h_call(a) {
                            self.temp(a, pre);
                        }
                    }
                }
            }
            Expr::Paren(p) => self.expr(&mut p.expr, pre, uncond),
            Expr::Group(p) => self.expr(&mut p.expr, pre, uncond),
            Expr::Reference(r) => self.expr(&mut r.expr, pre, uncond),
            Expr::Unary(u) => self.expr(&mut u.expr, pre, uncond),
            Expr::Field(f) => self.expr(&mut f.base, pre, uncond),
            Expr::Assign(a) => {
                self.expr(&mut a.right, pre, uncond);
            }
            Expr::Tuple(t) => {
                for x in t.elems.iter_mut() {
                    self.expr(x, pre, uncond);
                }
            }
            Expr::Return(r) => {
                if let Some(x) = &mut r.expr {
                    self.expr(x, pre, uncond);
                }
            }
            Expr::Cast(c) => self.expr(&mut c.expr, pre, uncond),
            _ => {}
        }
    }
}

// ---------------------------------------------------------------- profile T: interference points
/// `interfere(h, g, c);` in front of every statement whose own evaluation (not that of its nested
/// blocks) touches the shared heap: other threads may take any number of atomic steps there.
fn elim_continue(stmts: Vec<Stmt>) -> Vec<Stmt> {
    let is_continue_block = |b: &Block| b.stmts.len() == 1 && matches!(&b.stmts[0], Stmt::Expr(Expr::Continue(c), _) if c.label.is_none());
    let mut out = vec![];
    let mut it = stmts.into_iter();
    while let Some(st) = it.next() {
        if let Stmt::Expr(Expr::If(i), _) = &st {
            if i.else_branch.is_none() && is_continue_block(&i.then_branch) {
                let cond = &i.cond;
                let rest = elim_continue(it.collect());
                out.push(parse_quote! { if !(#cond) { #(#rest)* } });
                return out;
            }
        }
        out.push(st);
    }
    out
}
struct ClosureFinder { found: Vec<String> }
impl<'ast> syn::visit::Visit<'ast> for ClosureFinder {
    fn visit_expr_closure(&mut self, c: &'ast syn::ExprClosure) {
        self.found.push(ts(c).chars().take(80).collect());
    }
}
struct Interferer { unsupported: Vec<String>, conds: usize }
/// number of shared-heap accesses in the head of a statement (not in its nested blocks); an
/// `atomic(..)` step counts as one
fn head_heap_accesses(e: &Expr) -> usize {
    struct V(usize);
    impl<'ast> Visit<'ast> for V {
        fn visit_expr(&mut self, e: &'ast Expr) {
            match e {
                Expr::Closure(_) | Expr::Async(_) => {}
                Expr::Call(c) if ts(&c.func) == "atomic" => { self.0 += 1; }
                Expr::Call(c) if ts(&c.func) == "after_step" || ts(&c.func) == "interfere" => {}
                Expr::Block(_) | Expr::Loop(_) => {}
                Expr::If(i) => { self.visit_expr(&i.cond); }
                Expr::Match(m) => { self.visit_expr(&m.expr); }
                Expr::While(w) => { self.visit_expr(&w.cond); }
                Expr::ForLoop(f) => { self.visit_expr(&f.expr); }
                _ => {
                    if is_h_call(e) { self.0 += 1; }
                    syn::visit::visit_expr(self, e);
                }
            }
        }
    }
    let mut v = V(0);
    v.visit_expr(e);
    v.0
}
fn branches_outside_atomic(e: &Expr) -> bool {
    struct V(bool);
    impl<'ast> Visit<'ast> for V {
        fn visit_expr(&mut self, e: &'ast Expr) {
            match e {
                Expr::Closure(_) | Expr::Async(_) => {}
                Expr::Call(c) if ts(&c.func) == "atomic" => {}
                Expr::If(_) | Expr::Match(_) | Expr::While(_) | Expr::ForLoop(_) | Expr::Loop(_) => { self.0 = true; }
                _ => syn::visit::visit_expr(self, e),
            }
        }
    }
    let mut v = V(false);
    v.visit_expr(e);
    v.0
}
fn step_first_in_branches(e: &mut Expr) {
    fn prepend(b: &mut Block) {
        b.stmts.insert(0, parse_quote! { after_step(h, g, c); });
    }
    match e {
        Expr::If(i) => {
            prepend(&mut i.then_branch);
            if let Some((_, els)) = &mut i.else_branch {
                if let Expr::Block(b) = &mut **els { prepend(&mut b.block); }
            }
        }
        Expr::Match(m) => {
            for arm in m.arms.iter_mut() {
                if !matches!(&*arm.body, Expr::Block(_)) {
                    let body = (*arm.body).clone();
                    arm.body = Box::new(parse_quote! { { #body } });
                    arm.comma = None;
                }
                if let Expr::Block(b) = &mut *arm.body { prepend(&mut b.block); }
            }
        }
        Expr::ForLoop(f) => prepend(&mut f.body),
        _ => {}
    }
}
impl VisitMut for Interferer {
    fn visit_expr_mut(&mut self, e: &mut Expr) {
        if let Expr::Call(c) = e {
            if ts(&c.func) == "atomic" { return; } // one atomic step: no interference inside
        }
        // `else if c {..}` -> `else { if c {..} }`: the second condition is a statement of its own
        if let Expr::If(i) = e {
            if let Some((_, els)) = &mut i.else_branch {
                if matches!(&**els, Expr::If(_)) {
                    let inner = (**els).clone();
                    *els = Box::new(parse_quote! { { #inner } });
                }
            }
        }
        visit_mut::visit_expr_mut(self, e);
    }
    fn visit_block_mut(&mut self, b: &mut Block) {
        let mut out: Vec<Stmt> = vec![];
        // `A && B` / `A || B` with a shared access on both sides: two steps, the second one conditional.
        // `if A && B {..}` -> `let __c = if A { B } else { false }; if __c {..}` (short-circuit order kept)
        let mut queue: std::collections::VecDeque<Stmt> = std::mem::take(&mut b.stmts).into();
        let mut stmts: Vec<Stmt> = vec![];
        while let Some(mut s) = queue.pop_front() {
            let cond: Option<&mut Expr> = match &mut s {
                Stmt::Expr(Expr::If(i), _) => Some(&mut *i.cond),
                Stmt::Local(l) => match l.init.as_mut().map(|i| &mut *i.expr) {
                    Some(Expr::If(i)) => Some(&mut *i.cond),
                    Some(e) => Some(e),
                    None => None,
                },
                _ => None,
            };
            if let Some(c) = cond {
                if head_heap_accesses(c) > 1 {
                    let inner = strip_parens(c).clone();
                    if let Expr::Binary(bin) = inner {
                        let (l, r) = (&bin.left, &bin.right);
                        let new: Option<Expr> = match bin.op {
                            syn::BinOp::And(_) => Some(parse_quote! { if #l { #r } else { false } }),
                            syn::BinOp::Or(_) => Some(parse_quote! { if #l { true } else { #r } }),
                            _ => None,
                        };
                        if let Some(new) = new {
                            let name = format_ident!("__c{}", self.conds);
                            self.conds += 1;
                            *c = parse_quote! { #name };
                            queue.push_front(s);
                            queue.push_front(parse_quote! { let #name = #new; });
                            continue;
                        }
                    }
                }
            }
            stmts.push(s);
        }
        let n = stmts.len();
        for (k, mut s) in stmts.into_iter().enumerate() {
            let accesses = match &s {
                Stmt::Local(l) => l.init.as_ref().map(|i| head_heap_accesses(&i.expr)).unwrap_or(0),
                Stmt::Expr(e, _) => head_heap_accesses(e),
                _ => 0,
            };
            if accesses > 1 {
                self.unsupported.push(format!("profile T: {} shared accesses in one statement `{}`", accesses, ts(&s).chars().take(80).collect::<String>()));
            }
            if accesses >= 1 {
                // the ghost step of a branching statement's own access comes first in every branch
                let head: Option<&mut Expr> = match &mut s {
                    Stmt::Local(l) => l.init.as_mut().map(|i| &mut *i.expr),
                    Stmt::Expr(e, _) => Some(e),
                    _ => None,
                };
                if let Some(head) = head {
                    match head {
                        Expr::If(_) | Expr::Match(_) | Expr::ForLoop(_) => step_first_in_branches(head),
                        Expr::While(_) => self.unsupported.push("profile T: `while` condition makes a shared access".into()),
                        other => {
                            if branches_outside_atomic(other) {
                                self.unsupported.push("profile T: a shared access decides a branch nested inside an expression".into());
                            }
                        }
                    }
                }
            }
            self.visit_stmt_mut(&mut s);
            if accesses == 0 {
                out.push(s);
                continue;
            }
            out.push(parse_quote! { interfere(h, g, c); });
            // the ghost step that belongs to this thread's atomic step follows it immediately
            match s {
                Stmt::Expr(e, None) if k + 1 == n && !matches!(e, Expr::Return(_) | Expr::Break(_) | Expr::Continue(_)) => {
                    out.push(parse_quote! { let __v = #e; });
                    out.push(parse_quote! { after_step(h, g, c); });
                    out.push(Stmt::Expr(parse_quote! { __v }, None));
                }
                s => {
                    out.push(s);
                    out.push(parse_quote! { after_step(h, g, c); });
                }
            }
        }
        b.stmts = out;
    }
}

// ---------------------------------------------------------------- locating the operator
fn find_mod<'a>(items: &'a [Item], name: &str) -> Option<&'a syn::ItemMod> {
    for it in items {
        if let Item::Mod(m) = it {
            if m.ident == name {
                return Some(m);
            }
        }
    }
    None
}
fn find_op_body(file: &syn::File, op: &str, arity: usize) -> Result<Block, String> {
    let m = find_mod(&file.items, op).ok_or(format!("module `{}` not found in the expansion", op))?;
    let items = &m.content.as_ref().ok_or("module has no inline content")?.1;
    if op == "combine" {
        for it in items {
            if let Item::Impl(im) = it {
                let is_combine = im.trait_.as_ref().map(|t| t.1.segments.last().map(|s| s.ident == "Combine").unwrap_or(false)).unwrap_or(false);
                if !is_combine {
                    continue;
                }
                if let syn::Type::Tuple(t) = &*im.self_ty {
                    if t.elems.len() == arity {
                        for ii in &im.items {
                            if let syn::ImplItem::Fn(f) = ii {
                                if f.sig.ident == "combine" {
                                    return Ok(f.block.clone());
                                }
                            }
                        }
                    }
                }
            }
        }
        return Err(format!("impl Combine for a {}-tuple not found", arity));
    }
    for it in items {
        if let Item::Fn(f) = it {
            if f.sig.ident == op {
                return Ok((*f.block).clone());
            }
        }
    }
    Err(format!("fn `{}` not found in module `{}`", op, op))
}

/// combine: the body of `impl Unwrap for (Option<A>, ..)`'s `unwrap` for the given arity
fn find_unwrap_body(file: &syn::File, arity: usize) -> Option<Block> {
    let m = find_mod(&file.items, "combine")?;
    for it in &m.content.as_ref()?.1 {
        if let Item::Impl(im) = it {
            let is_unwrap = im.trait_.as_ref().map(|t| t.1.segments.last().map(|s| s.ident == "Unwrap").unwrap_or(false)).unwrap_or(false);
            if !is_unwrap {
                continue;
            }
            if let syn::Type::Tuple(t) = &*im.self_ty {
                if t.elems.len() == arity {
                    for ii in &im.items {
                        if let syn::ImplItem::Fn(f) = ii {
                            if f.sig.ident == "unwrap" {
                                return Some(f.block.clone());
                            }
                        }
                    }
                }
            }
        }
    }
    None
}

fn run_pass(body: &Block, labels: Option<Vec<String>>) -> Rewriter {
    let mut rw = Rewriter::new(labels);
    rw.interfere = std::env::args().any(|a| a == "--interfere=1");
    let stmts = body.stmts.clone();
    let label = rw.lift(vec![], stmts, "fn", "ctor".into());
    let _ = label;
    rw
}
fn unique_labels(guesses: &[String]) -> Vec<String> {
    let mut count: BTreeMap<&str, usize> = BTreeMap::new();
    for g in guesses {
        *count.entry(g.as_str()).or_default() += 1;
    }
    let mut seen: BTreeMap<&str, usize> = BTreeMap::new();
    guesses
        .iter()
        .map(|g| {
            if count[g.as_str()] > 1 {
                let k = seen.entry(g.as_str()).or_default();
                let s = format!("{}_{}", g, *k);
                *k += 1;
                s
            } else {
                g.clone()
            }
        })
        .collect()
}
fn rustfmt(body: &str) -> String {
    let src = format!("fn __w() {{\n{}\n}}\n", body);
    let child = Command::new("rustfmt").args(["--edition", "2021", "--config", "max_width=1000,fn_call_width=900,chain_width=900,single_line_if_else_max_width=0"]).stdin(Stdio::piped()).stdout(Stdio::piped()).stderr(Stdio::piped()).spawn();
    if let Ok(mut ch) = child {
        ch.stdin.as_mut().unwrap().write_all(src.as_bytes()).ok();
        if let Ok(out) = ch.wait_with_output() {
            if out.status.success() {
                let s = String::from_utf8_lossy(&out.stdout).to_string();
                let lines: Vec<&str> = s.lines().collect();
                if lines.len() >= 2 {
                    return lines[1..lines.len() - 1].iter().map(|l| l.strip_prefix("    ").unwrap_or(l)).collect::<Vec<_>>().join("\n");
                }
            }
        }
    }
    body.to_string()
}

fn main() {
    let a: Vec<String> = std::env::args().collect();
    let mut opts: HashMap<String, String> = HashMap::new();
    let mut i = 1;
    while i + 1 < a.len() {
        opts.insert(a[i].trim_start_matches("--").to_string(), a[i + 1].clone());
        i += 2;
    }
    let fail = |msg: String| -> ! {
        eprintln!("weaver: {}", msg);
        std::process::exit(2)
    };
    let op = opts.get("op").cloned().unwrap_or_else(|| fail("--op missing".into()));
    let arity: usize = opts.get("arity").map(|s| s.parse().unwrap()).unwrap_or(0);
    let src = opts.get("expanded").cloned().unwrap_or_else(|| fail("--expanded missing".into()));
    let labels_src = opts.get("labels-from").cloned().unwrap_or_else(|| src.clone());
    let parse = |p: &str| -> syn::File {
        let text = std::fs::read_to_string(p).unwrap_or_else(|e| fail(format!("{}: {}", p, e)));
        syn::parse_file(&text).unwrap_or_else(|e| fail(format!("{}: parse error: {}", p, e)))
    };
    let file = parse(&src);
    let body = find_op_body(&file, &op, arity).unwrap_or_else(|e| fail(e));
    // pass 1 on the labelled expansion (tracing on): discover labels in pre-order
    let lfile = if labels_src == src { None } else { Some(parse(&labels_src)) };
    let lbody = match &lfile {
        Some(f) => find_op_body(f, &op, arity).unwrap_or_else(|e| fail(e)),
        None => body.clone(),
    };
    let p1 = run_pass(&lbody, None);
    let labels = unique_labels(&p1.guesses);
    if lfile.is_some() {
        let p1b = run_pass(&body, None);
        if p1b.guesses.len() != labels.len() {
            fail(format!("closure count differs between the two expansions: {} vs {}", p1b.guesses.len(), labels.len()));
        }
    }
    // pass 2: rewrite with final labels
    let rw = run_pass(&body, Some(labels.clone()));
    if !rw.unsupported.is_empty() {
        for u in &rw.unsupported {
            eprintln!("weaver: unsupported: {}", u);
        }
        std::process::exit(2);
    }
    let mut handlers = vec![];
    for h in &rw.out {
        let body: TokenStream = h.body.iter().map(|s| s.to_token_stream()).collect();
        let text = rustfmt(&body.to_string());
        handlers.push(serde_json::json!({
            "label": h.label, "kind": h.kind, "params": h.params, "body": text,
            "cells": h.cells.iter().map(|(n, k)| serde_json::json!({"name": n, "kind": k})).collect::<Vec<_>>(),
            "trace_events": h.trace_events, "loops": h.loops, "unmodelled_closures": h.closures,
        }));
    }
    if op == "combine" {
        match find_unwrap_body(&file, arity) {
            Some(b) => {
                let body: TokenStream = b.stmts.iter().map(|s| s.to_token_stream()).collect();
                handlers.push(serde_json::json!({ "label": "unwrap_impl", "kind": "fn", "params": ["self"], "body": rustfmt(&body.to_string()), "cells": [], "trace_events": 0, "loops": 0 }));
            }
            None => fail(format!("impl Unwrap for a {}-tuple not found", arity)),
        }
    }
    let out = serde_json::json!({ "op": op, "arity": arity, "expanded": src, "labels": labels, "handlers": handlers });
    println!("{}", serde_json::to_string_pretty(&out).unwrap());
}
