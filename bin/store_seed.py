#!/usr/bin/env python3
"""copy a confirmed seeded change into /verif/seeded/<name>/ and record what was run"""
import json, os, shutil, sys, glob
wt, name, caught, outcome = sys.argv[1], sys.argv[2], sys.argv[3], sys.argv[4]
d = os.path.join('/verif/seeded', name); os.makedirs(d, exist_ok=True)
shutil.copy(os.path.join(wt, 'seeded', 'patch.diff'), d)
for f in glob.glob(os.path.join(wt, 'seeded', '*.rs')): shutil.copy(f, d)
try: meta = json.load(open(os.path.join(wt, 'seeded', 'meta.json')))
except Exception: meta = {}
meta['confirmed_by_us'] = {"suite_with_change": "cargo test --workspace --no-fail-fast --offline: 61 passed", "demo_with_change": "fails", "demo_without_change": "passes", "how": "bin/confirm_seed.sh in the scratch worktree"}
meta['checks_run'] = f"git -C /repo apply patch.diff; python3 bin/check.py --property <P>; git -C /repo checkout -- ."
meta['caught_by'] = caught.split(',') if caught else []
meta['outcome'] = outcome
json.dump(meta, open(os.path.join(d, 'meta.json'), 'w'), indent=1)
print('stored', d)
