#!/usr/bin/env python3
"""Regenerate MANIFEST.json from the table below (keeps it schema-valid at all times)."""
import json, os
V = os.path.dirname(os.path.dirname(os.path.abspath(__file__)))
TECH_T = "contract-based deductive verification: Verus (SMT/Z3) on handler bodies extracted mechanically from rustc's expansion of /repo/src, with interference points woven around every shared access; rely/guarantee with auxiliary (ticket) variables; the only assumed function is the interference itself"
TECH = "contract-based deductive verification: Verus (SMT/Z3) on handler bodies extracted mechanically from rustc's expansion of /repo/src, woven into requires/ensures/invariant contracts with a verified most-general conformant environment"
NOTE = ("Assumes: extraction rules R1-R17 (DESIGN 3.3) are faithful; sequential cell shims for atomics/ArcSwap/RwLock; user closures deterministic and non-reentrant; "
        "peers spec-conformant; the assume/guarantee meta-argument of DESIGN 2.6; partial correctness; Verus/Z3. ")
NOTE_T = ("Assumes: extraction rules (DESIGN 3.3) are faithful; sequentially consistent interleaving at shared-access granularity (memory orderings ignored), fetch_* / fetch_update / rcu atomic; "
          "`interfere_raw`/`call_raw` = any number of steps of the other threads preserving the invariant and the rely; that every thread's checked guarantee implies the others' rely is the rely/guarantee meta-argument (DESIGN 2.7), not machine-checked; "
          "one member = one thread that does not overlap its own deliveries; passive sink; partial correctness; Verus/Z3. ")
CLAIMS = {
    # id: (operators covered, text)
    "C01": ("", "greet-once / greet-first are separate call-site obligations (gates) at every delivery to the sink, discharged for all histories with conformant peers"),
    "C02": ("", "nothing-after-termination gate at every delivery plus the termination-count invariant part"),
    "C03": ("", "nothing-after-disposal gate at every delivery; the ghost phase flips to EndedBySink on entry of the sink talkback"),
    "C04": ("", "gates on every call to an upstream source/talkback (subscribed once, never before greeting, terminated at most once, not after it ended) and disposal postconditions"),
    "C05": ("", "postcondition of the upstream handler on Error: sink ended with that error id; invariant part fwd"),
    "C06": ("stage contracts under the pullable profile + chain lemmas (unit pipeline) + rustc expansion of pipe! (unit pipe_macro)", "per-stage proofs of output = list function of input, demand conservation and completion, for from_iter (base), map/filter/scan/take/skip/concat/flatten (stages) and for_each (terminal); machine-checked chain lemmas for data and for no-stall; pipe! = nested application is decided by letting rustc expand the real macro. Identifying adjacent links and the induction over the number of stages is a stated meta-step"),
    "C07": ("", "data-relation invariant parts over Seq: map_values / filter / running fold / take / skip, with uninterpreted user functions"),
    "C08": ("members greet inside the subscribing call or later, in any order; a member that greets after the output is over is told to stop and not counted", "arrival-order data relation, counters tied to member phases by recursive counts with lemmas, Pull-reaches-every-live-member postcondition via a loop invariant, completion gate"),
    "C09": ("n >= 1 in the unit concat, n == 0 in the unit concat0", "lazy-subscription gate (member k+1 only after member k completed), member-order data relation over a recursive concatenation, re-issued Pull postcondition"),
    "C10": ("one generated contract per arity 1..3 of the macro", "latest-value tuple gate at every emission (COMBINE_TUPLE), exactly-one-tuple-per-datum counter invariant, counters tied to member phases, completion gate, Pull-reaches-every-running-member postcondition"),
    "C11": ("", "generation ghost: previous-inner-disposed gate at every inner subscription, routing gate on Pulls, completion gate, one Pull per inner greeting, arrival-order data relation"),
    "C12": ("profile R as the property quantifies: attaches at top level, only the sink being delivered to acts, the source answers inside a delivery only when it is the last of its fan-out; nested fan-out, another sink acting or attaching during a delivery and a late upstream are explored by the bounded supplement on every run (findings F4, F12, F13, F14 there were repaired)", "reference-count invariant (list non-empty <=> upstream alive), position ghost tying attached sinks to list entries, loop invariants of the data fan-out over a snapshot and of the hand-round of an end (list emptied at once, the sinks still owed the end kept in a second cell), postconditions: every attached sink gets every datum / the termination / the error"),
    "C13": ("", "every cell is allocated inside the subscription handler (alloc flags in the postcondition of subscribe); closures outside the handler must read exactly as recorded"),
    "C14": ("", "pullable profile (c.pullable): no-unrequested-data gate and outstanding-demand invariant parts"),
    "C15": ("", "iterator-order, one-next-per-item and no-nested-delivery (ddepth) obligations on the extracted loop closure with a loop invariant"),
    "C16": ("", "the async task is lifted as a function with `.await` as a yield to the verified environment: k-th delivery is k, nothing after the disposal flag is seen, spawn failure yields exactly one Error; real time (one yield = one period; first tick after the greeting) and counter wrap-around are stated assumptions"),
    "C17": ("", "Verus proves every panic!/expect/unwrap/overflow site in the extracted bodies unreachable"),
    "C18": ("profile T: the member handlers of merge (n >= 1 members, symbolic n) and of combine (arities 2 and 3) under racing member threads; one member = one thread, passive sink, at most one failing member; `completion` is read as the normal one (Terminate)", "rely/guarantee with auxiliary variables at shared-access granularity (see C19) on the member handlers extracted from merge.rs and from the combine_impls! expansion. Tickets: the read-modify-write that moves start_count from 0 (n_start to 0) hands out the one greeting ticket, the one that moves end_count to n (n_end to 0) the one completion ticket; greeting / completing the sink consumes it and the holder does so before it returns => greeted exactly once, completed exactly once. A counted member has begun its final delivery and has no data delivery in progress => completion after every data delivery has returned (gate at the Terminate delivery). merge: exactly one delivery per datum (postcondition). combine: a member is counted as having a value only once the value is stored, every stored value was sent by that member => `unwrap` cannot panic and every tuple is made of values actually sent (gates); `rcu` is one atomic step. The unfixed combine (count before store) fails the stored-before-counted invariant and panics in a deterministic two-thread schedule (finding F8, fixed in /repo)"),
    "C19": ("profile T: the Data path of take under racing deliveries, passive sink (no disposal racing with the deliveries; an upstream completion crossing take's own is outside the profile)", "rely/guarantee with auxiliary variables at shared-access granularity on the handler extracted from take.rs: `interfere` (any number of atomic steps of the other threads, assumed to preserve the invariant and satisfy the rely) is woven in front of every shared access and the ghost step `after_step` (a function of the heap delta) behind it; every step of this thread is checked against the guarantee. Tickets: an increment below the limit hands out one delivery ticket, the increment that reaches n hands out the two termination tickets; delivering a datum / completing the sink / terminating the upstream each consume one. Invariant: delivered + outstanding tickets <= counter <= n, termination tickets + terminations <= 1 => at most n data, sink and upstream terminated at most once; the ticket holder does terminate both (postcondition). `fetch_update` is one atomic step. The unfixed load+fetch_add code fails it (finding F7, fixed in /repo)"),
    "C20": ("", "the same contracts are discharged on the bodies extracted from the --features tracing expansion (real call! arm); user-closure call counters pin single evaluation"),
}
NA = {
}
import glob, re as _re
COVER = {}
for f in sorted(glob.glob(os.path.join(V, "contracts", "*.rs"))):
    t = open(f).read()
    m = _re.search(r"^//@(?:op\s+(\w+)|pure)", t, _re.M)
    pr = _re.search(r"^//@properties[ \t]+(.+)$", t, _re.M)
    if m and pr:
        name = os.path.basename(f)[:-3]
        for pid in pr.group(1).split():
            COVER.setdefault(pid, [])
            if name not in COVER[pid]:
                COVER[pid].append(name)
checks = []
for pid, (ops_note, text) in sorted(CLAIMS.items()):
    ops = ", ".join(COVER.get(pid, [])) + (f" ({ops_note})" if ops_note else "")
    checks.append({
        "property_id": pid,
        "quick_cmd": f"python3 bin/check.py --property {pid} --tier quick",
        "thorough_cmd": f"python3 bin/check.py --property {pid} --tier thorough",
        "evidence_file": f"/verif/evidence/{pid}.json",
        "replay_cmd_template": "python3 bin/replay.py {path}",
        "engine": "verus-weave",
        "level_claimed": {"category": "proof", "text": f"{text}. Operators under contract: {ops}.", "design_ref": "DESIGN.md 2, 5"},
        "level_note": (NOTE_T if pid in ("C18", "C19") else NOTE) + ("Histories outside the proved profile of share (nested fan-out, another sink acting or attaching during a delivery, an upstream that greets late) are explored on every run by a bounded stand-in (all decision tapes up to length 10, from fixed set-ups up to length 16, against the real crate), reported separately in the evidence. " if pid in ("C01", "C02", "C03", "C04", "C05", "C12", "C17") else "") + f"Covers: {ops}; operators not listed are not yet under contract for this property.",
        "technique": TECH_T if pid in ("C18", "C19") else TECH,
    })
m = {
    "version": 1,
    "setup_cmd": "cd /verif/weaver && CARGO_NET_OFFLINE=true cargo build --release --offline --target-dir /verif/build/weaver-target && cd /verif/replay && CARGO_NET_OFFLINE=true cargo build --release --offline --target-dir /verif/build/replay-target",
    "hooks": {"guard": "callbag_verif", "enable": "none needed: contracts are woven outside /repo from rustc's expansion of the unmodified sources", "baseline_off_cmd": "cd /repo && cargo test --workspace --no-fail-fast --offline", "source_commits": [], "add_only": True},
    "engines": [{"name": "verus-weave", "path": "/verif/bin/check.py", "serves_properties": sorted(CLAIMS), "kind_free_text": "expand (rustc) -> weave (syn) -> Verus -> classify"}],
    "checks": checks,
    "not_applicable": [{"property_id": k, "reason": v} for k, v in sorted(NA.items())],
    "notes": "See DESIGN.md. Exit 2 from a check means undecided (expansion/weaving/type error/resource limit), never a violation.",
}
json.dump(m, open(os.path.join(V, "MANIFEST.json"), "w"), indent=1)
print("MANIFEST.json written:", len(checks), "checks,", len(NA), "not applicable")
