"""Global table of call-site clauses ("gates", DESIGN §2.2).  Every call the extracted code makes
to a peer handle is preceded, in the woven file, by one `assert(recv.gate(k, ...))` per entry, so each
clause is a separate obligation and is reported on its own (Verus reports only the first failing
clause of a multi-clause precondition)."""
GATES = [
    # name, property, text
    ("NO_PULL_DOWN", "C04", "an operator never pulls its sink"),
    ("GREET_ONCE", "C01", "greet-once: a sink is greeted at most once"),
    ("GREET_FIRST", "C01", "greet-first: nothing reaches a sink before its handshake"),
    ("AFTER_TERM", "C02", "nothing is delivered after the terminating message"),
    ("AFTER_DISPOSAL", "C03", "nothing is delivered to a sink that disposed"),
    ("NO_ORPHAN", "C04", "no live upstream is left behind when the output ends"),
    ("QUIET", "C04", "no delivery to the sink while an upstream subscription is in progress"),
    ("UNREQUESTED", "C14", "no Data beyond the Pulls received (pullable mode)"),
    ("UP_KIND", "C04", "only Pull/Terminate/Error go upstream"),
    ("UP_GREETED", "C04", "nothing is sent to an upstream before it greeted"),
    ("UP_PULL_LIVE", "C04", "no Pull to an upstream that was terminated"),
    ("UP_PULL_SELF", "C04", "no Pull to an upstream that ended by itself"),
    ("UP_PULL_OVER", "C04", "no Pull to a member that is over, once the output itself is over"),
    ("UP_TERM_ONCE", "C04", "an upstream is terminated at most once"),
    ("UP_TERM_SELF", "C04", "no termination of an upstream that ended by itself"),
    ("SUB_KIND", "C04", "a source is only ever greeted"),
    ("SUB_ONCE", "C04", "each upstream is subscribed at most once"),
    ("SUB_OVER", "C04", "no upstream is subscribed once the output is over"),
    ("SUB_INDEX", "C04", "the handler given to member i is member i's handler"),
    ("LAZY", "C09", "member k+1 is subscribed only after member k completed"),
    ("PREV_INNER", "C11", "the previous inner is disposed before the next is subscribed"),
    ("FLAT_DONE", "C11", "the output completes only when the outer completed and no inner is active"),
    ("FLAT_ROUTE", "C11", "a Pull goes to the active inner if there is one, else to the outer"),
    ("NESTED", "C15", "no delivery begins while an earlier one is in progress"),
    ("ERR_ID", "C05", "the error delivered is the error received"),
    ("MERGE_DONE", "C08", "merge completes the sink only when every member has completed"),
    ("COMBINE_TUPLE", "C10", "every tuple holds the latest value of every member, and none is emitted before all have one"),
    ("COMBINE_DONE", "C10", "combine completes the sink only after every member has ended"),
    ("SHARE_TB", "C12", "a sink is greeted with its own talkback"),
    ("SHARE_ONE_UP", "C12", "the upstream is subscribed only when exactly one sink is attached and no upstream subscription is alive"),
    ("SHARE_LAST", "C12", "the upstream is disposed only when the last attached sink has detached"),
    ("TICK_ORDER", "C16", "the k-th number delivered is k: 0, 1, 2, ... one per elapsed period"),
]
INDEX = {n: i for i, (n, _, _) in enumerate(GATES)}
N = len(GATES)
