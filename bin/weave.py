#!/usr/bin/env python3
"""Splice mechanically extracted handler bodies (weaver output) into a contract template.

Template directives (DESIGN §3.4):
  //@op <name> [arity]                 operator (module / fn) the bodies come from
  //@include <file> K=V ...            textual include with $K substitution
  //@cell <name>: <type> = <kind>      generate the cell shim (Cell_<name>) over the template's Heap
  //@heap <type> / //@tp <params>      heap type / type parameters used by generated cell shims
  //@invpart <name> @Cxx <text>        declare a named, tagged conjunct of the yield-point invariant
  //@ignore <label> = <text>           a lifted closure with no hole; its text must match exactly
  //@token <label> => <expr>           constructor expression of a handler token
  INV!(h, g, c)                        expands to one tagged clause per declared invariant part
  INVARIANT!("<label>", k) { ... }     loop invariant for the k-th loop of handler <label>
  BODY!("<label>");                    hole filled with the extracted body of closure <label>
Exit code 2 (WeaveError) = the state shape or closure structure changed: undecided, not a violation.
"""
import json, os, re, subprocess, sys, hashlib
sys.path.insert(0, os.path.dirname(os.path.abspath(__file__)))
import gates as gates_mod

VERIF = os.path.dirname(os.path.dirname(os.path.abspath(__file__)))
BUILD = os.path.join(VERIF, "build")
CONTRACTS = os.path.join(VERIF, "contracts")
WEAVER = os.path.join(BUILD, "weaver-target", "release", "weaver")


class WeaveError(Exception):
    pass


class StructuralViolation(Exception):
    """An ignored closure (ctor/apply) now allocates state: C13."""
    def __init__(self, label, text):
        super().__init__(f"{label}: {text}")
        self.label, self.text = label, text


def norm(s):
    return re.sub(r"\s+", "", s)


def extract(op, cfg, arity=0, interfere=False):
    exp = os.path.join(BUILD, "expand", cfg, "expanded.rs")
    lab = os.path.join(BUILD, "expand", "on", "expanded.rs")
    cmd = [WEAVER, "--op", op, "--expanded", exp, "--labels-from", lab]
    if arity:
        cmd += ["--arity", str(arity)]
    if interfere:
        cmd += ["--interfere=1"]
    p = subprocess.run(cmd, capture_output=True, text=True)
    if p.returncode != 0:
        raise WeaveError(f"weaver failed for {op}/{cfg}: {p.stderr.strip()}")
    return json.loads(p.stdout)


# ------------------------------------------------------------------ cell shims
def gen_cell(name, ty, kind, heap, tp):
    gen = f"<{tp}>" if tp else ""
    C = f"Cell_{name}"
    upd = lambda fields: f"*final(h) == ({heap.split('<')[0]} {{ {fields}, ..*old(h) }})"
    out = [f"#[derive(Clone, Copy)] pub struct {C} {{}}", f"impl {C} {{"]
    if kind == "atomic":
        out += [
            f"    pub fn alloc{gen}(h: &mut {heap}, v: {ty}) -> (r: {C}) ensures {upd(f'{name}: v, alloc_{name}: true')} {{ h.{name} = v; h.alloc_{name} = true; {C} {{}} }}",
            f"    pub fn load{gen}(&self, h: &{heap}, o: AtomicOrdering) -> (r: {ty}) ensures r == h.{name} {{ h.{name} }}",
            f"    pub fn store{gen}(&self, h: &mut {heap}, v: {ty}, o: AtomicOrdering) ensures {upd(f'{name}: v')} {{ h.{name} = v; }}",
        ]
        out += [
            f"    pub fn swap{gen}(&self, h: &mut {heap}, v: {ty}, o: AtomicOrdering) -> (r: {ty}) ensures r == old(h).{name}, {upd(f'{name}: v')} {{ let r = h.{name}; h.{name} = v; r }}",
            f"    pub fn compare_exchange{gen}(&self, h: &mut {heap}, cur: {ty}, new: {ty}, o1: AtomicOrdering, o2: AtomicOrdering) -> (r: Result<{ty}, {ty}>)",
            f"        ensures old(h).{name} == cur ==> r == Ok::<{ty}, {ty}>(cur) && {upd(f'{name}: new')}, old(h).{name} != cur ==> r == Err::<{ty}, {ty}>(old(h).{name}) && *final(h) == *old(h),",
            f"    {{ if h.{name} == cur {{ h.{name} = new; Ok(cur) }} else {{ Err(h.{name}) }} }}",
        ]
        if ty == "bool":
            out += [
                f"    pub fn fetch_or{gen}(&self, h: &mut {heap}, v: bool, o: AtomicOrdering) -> (r: bool) ensures r == old(h).{name}, {upd(f'{name}: (old(h).{name} || v)')} {{ let r = h.{name}; h.{name} = r || v; r }}",
                f"    pub fn fetch_and{gen}(&self, h: &mut {heap}, v: bool, o: AtomicOrdering) -> (r: bool) ensures r == old(h).{name}, {upd(f'{name}: (old(h).{name} && v)')} {{ let r = h.{name}; h.{name} = r && v; r }}",
            ]
        if ty == "usize":
            out += [
                f"    /// std::sync::atomic fetch_add / fetch_sub wrap around on overflow and return the previous value",
                f"    pub fn fetch_add{gen}(&self, h: &mut {heap}, d: usize, o: AtomicOrdering) -> (r: usize)",
                f"        ensures r == old(h).{name}, {upd(f'{name}: final(h).{name}')},",
                f"            final(h).{name} as int == (if old(h).{name} + d > usize::MAX {{ old(h).{name} + d - usize::MAX - 1 }} else {{ old(h).{name} + d }})",
                f"    {{ let r = h.{name}; h.{name} = h.{name}.wrapping_add(d); r }}",
                f"    pub fn fetch_sub{gen}(&self, h: &mut {heap}, d: usize, o: AtomicOrdering) -> (r: usize)",
                f"        ensures r == old(h).{name}, {upd(f'{name}: final(h).{name}')},",
                f"            final(h).{name} as int == (if old(h).{name} < d {{ old(h).{name} - d + usize::MAX + 1 }} else {{ old(h).{name} - d }})",
                f"    {{ let r = h.{name}; h.{name} = h.{name}.wrapping_sub(d); r }}",
                f"    pub fn fetch_max{gen}(&self, h: &mut {heap}, v: usize, o: AtomicOrdering) -> (r: usize) ensures r == old(h).{name}, {upd(f'{name}: (if old(h).{name} >= v {{ old(h).{name} }} else {{ v }})')} {{ let r = h.{name}; if v > r {{ h.{name} = v; }} r }}",
                f"    pub fn fetch_min{gen}(&self, h: &mut {heap}, v: usize, o: AtomicOrdering) -> (r: usize) ensures r == old(h).{name}, {upd(f'{name}: (if old(h).{name} <= v {{ old(h).{name} }} else {{ v }})')} {{ let r = h.{name}; if v < r {{ h.{name} = v; }} r }}",
            ]
    elif kind == "swap_option":
        out += [
            f"    pub fn alloc{gen}(h: &mut {heap}, v: {ty}) -> (r: {C}) ensures {upd(f'{name}: v, alloc_{name}: true')} {{ h.{name} = v; h.alloc_{name} = true; {C} {{}} }}",
            f"    pub fn load{gen}(&self, h: &{heap}) -> (r: {ty}) ensures r == h.{name} {{ h.{name} }}",
            f"    pub fn store{gen}(&self, h: &mut {heap}, v: {ty}) ensures {upd(f'{name}: v')} {{ h.{name} = v; }}",
            f"    pub fn swap{gen}(&self, h: &mut {heap}, v: {ty}) -> (r: {ty}) ensures r == old(h).{name}, {upd(f'{name}: v')} {{ let r = h.{name}; h.{name} = v; r }}",
            f"    pub fn load_full{gen}(&self, h: &{heap}) -> (r: {ty}) ensures r == h.{name} {{ h.{name} }}",
        ]
    elif kind == "swap":
        out += [
            f"    pub fn alloc{gen}(h: &mut {heap}, v: {ty}) -> (r: {C}) ensures {upd(f'{name}: v, alloc_{name}: true')} {{ h.{name} = v; h.alloc_{name} = true; {C} {{}} }}",
            f"    /// ArcSwap::load yields a snapshot of the current value",
            f"    pub fn load{gen}(&self, h: &{heap}) -> (r: {ty}) ensures r == h.{name} {{ clone_val(&h.{name}) }}",
            f"    pub fn store{gen}(&self, h: &mut {heap}, v: {ty}) ensures {upd(f'{name}: v')} {{ h.{name} = v; }}",
            f"    pub fn load_full{gen}(&self, h: &{heap}) -> (r: {ty}) ensures r == h.{name} {{ clone_val(&h.{name}) }}",
        ]
    else:
        raise WeaveError(f"unknown cell kind {kind}")
    out.append("}")
    return "\n".join(out)


# ------------------------------------------------------------------ template processing
def subst(text, kv):
    for k in sorted(kv, key=len, reverse=True):
        text = re.sub(r"\$" + re.escape(k) + r"(?![A-Z0-9])", lambda m: kv[k], text)
    return text


def load_template(path, kv=None):
    text = open(path).read()
    if kv:
        text = subst(text, kv)
    out = []
    for line in text.split("\n"):
        m = re.match(r"\s*//@include\s+(\S+)(.*)$", line)
        if m:
            sub = dict((k, v.strip('"')) for k, v in re.findall(r'(\w+)=("[^"]*"|\S+)', m.group(2)))
            out.append(load_template(os.path.join(CONTRACTS, m.group(1)), sub))
        else:
            out.append(line)
    return "\n".join(out)


def take_invariants(text):
    """remove INVARIANT!("label", k) { ... } blocks, return (text, {(label,k): body})"""
    invs = {}
    while True:
        m = re.search(r'INVARIANT!\(\s*"([^"]+)"\s*,\s*(\d+)\s*\)\s*\{', text)
        if not m:
            break
        depth, i = 1, m.end()
        while depth:
            ch = text[i]
            depth += ch == "{"
            depth -= ch == "}"
            i += 1
        invs[(m.group(1), int(m.group(2)))] = text[m.end():i - 1].strip()
        text = text[:m.start()] + text[i:]
    return text, invs


USED_GATES = []


def expand_gates_macro(text):
    used = [i for name, i in gates_mod.INDEX.items() if re.search(r"\$GATE_" + name + r"\b", text)]
    if used:
        USED_GATES[:] = sorted(used)
    for name, i in gates_mod.INDEX.items():
        text = re.sub(r"\$GATE_" + name + r"\b", f"{i} /*{name}*/", text)
    if "$GATE_" in text:
        raise WeaveError("unknown gate name: " + re.search(r"\$GATE_\w+", text).group(0))
    out = []
    for line in text.split("\n"):
        m = re.match(r"^(\s*)GATES!\((.*)\)\s*,?\s*$", line)
        if m:
            ind, args = m.groups()
            recv, rest = args.split(",", 1)
            for k in USED_GATES:
                out.append(f"{ind}{recv.strip()}.gate({k},{rest}), /* @dup gate {gates_mod.GATES[k][0]} */")
        else:
            out.append(line)
    return "\n".join(out)


def split_by_message(text):
    """`//@split K1 K2 ..` in front of a handler: verify the same extracted body once per message kind
    (a plain case split: copies `<fn>__<K>` assume `message is K`; the handler itself becomes an
    exhaustive dispatcher with the original contract).  Keeps each SMT query small."""
    lines = text.split("\n")
    out, i = [], 0
    while i < len(lines):
        m = re.match(r"^//@split\s+(.+)$", lines[i])
        if not m:
            out.append(lines[i]); i += 1
            continue
        kinds = m.group(1).split()
        j = i + 1
        attrs = []
        while lines[j].lstrip().startswith("#["):
            attrs.append(lines[j]); j += 1
        hm = re.match(r"^pub fn (\w+)(<[^>]*>)?\((.*)\)\s*$", lines[j])
        if not hm:
            raise WeaveError("//@split must be followed by attributes and a one-line `pub fn` header")
        name, gen, params = hm.group(1), hm.group(2) or "", hm.group(3)
        k = j + 1
        while lines[k].strip() != "{":
            k += 1
        spec = lines[j + 1:k]
        depth, e = 0, k
        while True:
            depth += lines[e].count("{") - lines[e].count("}")
            if depth == 0:
                break
            e += 1
        body = lines[k:e + 1]
        # parameter names
        names, depth_a, cur = [], 0, ""
        for ch in params + ",":
            if ch in "<([":
                depth_a += 1
            if ch in ">)]":
                depth_a -= 1
            if ch == "," and depth_a == 0:
                if cur.strip():
                    names.append(cur.split(":")[0].strip())
                cur = ""
            else:
                cur += ch
        ridx = next(x for x, l in enumerate(spec) if l.strip() == "requires")
        for kd in kinds:
            out.extend(attrs)
            out.append(f"pub fn {name}__{kd}{gen}({params})")
            out.extend(spec[:ridx + 1])
            out.append(f"        message is {kd},")
            out.extend(spec[ridx + 1:])
            out.extend(body)
            out.append("")
        out.extend(a for a in attrs if "rlimit" not in a and "loop_isolation" not in a)
        out.append(f"pub fn {name}{gen}({params})")
        out.extend(spec)
        out.append("{")
        pat = {"Handshake": "Message::Handshake(_)", "Data": "Message::Data(_)", "Pull": "Message::Pull", "Error": "Message::Error(_)", "Terminate": "Message::Terminate"}
        for n_, kd in enumerate(kinds):
            head = "if" if n_ == 0 else "} else if"
            if n_ == len(kinds) - 1 and n_ > 0:
                out.append("    } else {")
            else:
                out.append(f"    {head} matches!(message, {pat[kd]}) {{")
            out.append(f"        {name}__{kd}({', '.join(names)})")
        out.append("    }")
        out.append("}")
        i = e + 1
    return "\n".join(out)


def check_gated_calls(text):
    """Soundness of dropping precondition failures at gated call sites (check.py classifies them as
    duplicates): every `call(.., m: ..)` of a handle must require nothing but gates, `extra` and
    invariant parts, all of which are asserted separately in front of the call."""
    lines = text.split("\n")
    for i, line in enumerate(lines):
        if re.match(r"^\s*pub fn call<.*\bm: ", line) and i + 1 < len(lines) and lines[i + 1].strip() == "requires":
            j = i + 2
            while lines[j].strip() != "ensures":
                t = lines[j].strip()
                if t and not (t.startswith("GATES!(") or t.startswith("self.extra(") or t.startswith("self.needs_inv(") or t.startswith("//")):
                    raise WeaveError(f"handle call has a precondition that is not asserted at call sites: {t}")
                j += 1


def add_unchecked_twins(text):
    """For every `pub fn call<..>(&self, h, g, c, m ..) requires .. ensures .. {` of a handle type, add
    `call_unchecked`: same signature and postcondition, no precondition, no body.  It is referenced only
    by the second verification pass (check.py), which uses it at call sites whose gates already failed,
    so that later obligations are not judged under the assumption of a failed one."""
    out, lines, i = [], text.split("\n"), 0
    while i < len(lines):
        line = lines[i]
        m = re.match(r"^(\s*)pub fn call(<.*)$", line)
        if m and i + 1 < len(lines) and lines[i + 1].strip() == "requires":
            ind = m.group(1)
            j = i + 1
            while lines[j].strip() != "ensures":
                j += 1
            k = j
            while lines[k].strip() != "{":
                k += 1
            # find the end of the body to append the twin after it
            depth, e = 0, k
            while True:
                depth += lines[e].count("{") - lines[e].count("}")
                if depth == 0:
                    break
                e += 1
            attrs = []
            out.extend(lines[i:e + 1])
            out.append(f"{ind}#[verifier::external_body]")
            out.append(f"{ind}pub fn call_unchecked{m.group(2)}")
            out.extend(lines[j:k])
            out.append(f"{ind}{{ unimplemented!() }}")
            i = e + 1
            continue
        out.append(line)
        i += 1
    return "\n".join(out)


def expand_inv_macro(text, parts):
    out = []
    for line in text.split("\n"):
        m = re.match(r"^(\s*)(.*?)INV(X?)!\((.*)\)\s*,?\s*$", line)
        if m and not line.lstrip().startswith("//"):
            ind, pre, x, args = m.groups()
            skip = ()
            if x:
                sk, args = args.split("|", 1)
                skip, args = set(sk.split()), args.strip()
            for pi, (name, tag) in enumerate(parts):
                if name in skip:
                    continue
                out.append(f"{ind}{pre.replace('$P', str(pi))}inv_{name}({args}), /* {tag} */")
        else:
            out.append(line)
    return "\n".join(out)


def fill_body(label, body, invs, tokens, nloops, parts, nogate=(), extratag='@C04 operator-specific side condition of the call'):
    # loop invariants: `<header> {` / `__inv!(k);`  ->  `<header>` / invariant .. / `{`, and the loop's closing
    # brace gets a `;` (Verus rejects a loop body that is directly followed by another block)
    src, out_lines, n, close_at = body.split("\n"), [], 0, {}
    for idx, line in enumerate(src):
        m = re.match(r"^(\s*)__inv!\((\d+)\);\s*$", line)
        if m:
            k = int(m.group(2))
            inv = invs.get((label, k))
            if inv is None:
                raise WeaveError(f"handler {label}: loop {k} has no INVARIANT! block in the contract")
            hdr = out_lines.pop()
            if not hdr.rstrip().endswith("{"):
                raise WeaveError(f"handler {label}: loop {k}: unexpected loop header layout")
            ind = re.match(r"^(\s*)", hdr).group(1)
            out_lines.append(hdr.rstrip()[:-1].rstrip())
            out_lines.extend(ind + l for l in inv.split("\n"))
            out_lines.append(ind + "{")
            for e in range(idx + 1, len(src)):
                if src[e] == ind + "}":
                    close_at[e] = ind + "};"
                    break
            else:
                raise WeaveError(f"handler {label}: loop {k}: closing brace not found")
            n += 1
            continue
        out_lines.append(close_at.get(idx, line))
    body = "\n".join(out_lines)
    if n != nloops:
        raise WeaveError(f"handler {label}: {nloops} loops extracted, {n} invariant markers placed")
    for lab, expr in tokens.items():
        body = body.replace(f"Tok_{lab} {{}}", expr)
    # call sites: marker + one separate assertion per gate and per invariant part (DESIGN 2.2)
    lines, k = [], 0
    for line in body.split("\n"):
        if ".call(h, g, c" in line:
            site = f"/*@site {label}#{k}*/"
            k += 1
            m = re.match(r"^(\s*)(return\s+)?(\S.*?)\.call\(h, g, c, (.*)\);\s*$", line)
            bal = lambda t: t.count("(") == t.count(")") and t.count("{") == t.count("}") and t.count("[") == t.count("]")
            # (a call nested inside another expression, e.g. an argument of a trace event, is not a statement of its own)
            if m and bal(m.group(3)) and bal(m.group(4)) and not m.group(3).startswith("let ") and m.group(3).strip() not in nogate:
                ind, ret, recv, args = m.groups()
                ret = ret or ""
                lines.append(f"{ind}; {{")
                lines.append(f"{ind}    let __r = {recv}; let __m = {args};")
                lines.append(f"{ind}    proof {{")
                for gi, (gn, gp, gt) in enumerate(gates_mod.GATES):
                    if gi not in USED_GATES:
                        continue  # no handle of this template mentions the gate: it is `true` for all of them
                    lines.append(f"{ind}        assert(__r.gate({gi}, *h, g@, *c, __m)); /* @{gp} {gt} */ {site}")
                lines.append(f"{ind}        assert(__r.extra(*h, g@, *c, __m)); /* {extratag} */ {site}")
                for pi, (name, tag) in enumerate(parts):
                    lines.append(f"{ind}        assert(__r.needs_inv(g@, __m, {pi}) ==> inv_{name}(*h, __r.post(g@, __m), *c)); /* {tag} (at the yield) */ {site}")
                lines.append(f"{ind}    }}")
                lines.append(f"{ind}    {ret}__r.call(h, g, c, __m); {site}")
                lines.append(f"{ind}}}")
                continue
            line += " " + site
        lines.append(line)
    return "\n".join(lines), k


def weave(op_file, cfg):
    """op_file: template name without .rs (e.g. 'take', 'combine2').  Returns (path, meta)."""
    tpath = os.path.join(CONTRACTS, op_file + ".rs")
    text = load_template(tpath)
    if re.search(r"^//@pure", text, re.M):
        # lemmas only: nothing is extracted
        out = os.path.join(BUILD, "woven", f"{op_file}_{cfg}.rs")
        os.makedirs(os.path.dirname(out), exist_ok=True)
        prelude = open(os.path.join(CONTRACTS, "prelude.rs")).read()
        open(out, "w").write("#![allow(unused)]\nuse vstd::prelude::*;\nverus! {\n" + prelude + "\n" + text + "\n} // verus!\nfn main() {}\n")
        return out, {"op": None, "arity": 0, "cfg": cfg, "handlers": {}, "sites": 0, "trace_events": 0, "woven": out, "extracted": {}}
    m = re.search(r"^//@op\s+(\w+)(?:\s+(\d+))?", text, re.M)
    if not m:
        raise WeaveError(f"{tpath}: no //@op directive")
    op, arity = m.group(1), int(m.group(2) or 0)
    ex = extract(op, cfg, arity, interfere=bool(re.search(r"^//@interfere", text, re.M)))
    handlers = {h["label"]: h for h in ex["handlers"]}
    heap = (re.search(r"^//@heap\s+(.+)$", text, re.M) or [None, "Heap"])[1].strip()
    tp = (re.search(r"^//@tp\s+(.+)$", text, re.M) or [None, ""])[1].strip()
    celltp = re.search(r"^//@celltp[ \t]*(.*)$", text, re.M)
    celltp = celltp.group(1).strip() if celltp else tp
    parts = [(a, f"{b} {c}".strip()) for a, b, c in re.findall(r"^//@invpart\s+(\w+)\s+(@C\d+(?:,C\d+)*)\s*(.*)$", text, re.M)]
    tokens = dict((a, b.strip()) for a, b in re.findall(r"^//@token\s+(\w+)\s*=>\s*(.+)$", text, re.M))
    ignores = dict((a, b) for a, b in re.findall(r"^//@ignore\s+(\w+)\s*=\s*(.*)$", text, re.M))
    skips = set(sum((x.split() for x in re.findall(r"^//@skip[ \t]+(.+)$", text, re.M)), []))
    nogate = set(sum((x.split() for x in re.findall(r"^//@nogate[ \t]+(.+)$", text, re.M)), []))
    et = re.search(r"^//@extratag[ \t]+(@C\d+(?:,C\d+)*.*)$", text, re.M)
    extratag = et.group(1).strip() if et else "@C04 operator-specific side condition of the call"
    text = split_by_message(text)
    text, invs = take_invariants(text)
    for pi, (name, _) in enumerate(parts):
        text = re.sub(r"\$PART_" + name + r"\b", f"{pi} /*{name}*/", text)
    if not re.search(r"^//@interfere", text, re.M):   # profile T has no gated calls (all receivers are //@nogate)
        check_gated_calls(text)
        text = add_unchecked_twins(text)
    text = expand_gates_macro(text)
    text = expand_inv_macro(text, parts)
    invs = {k: expand_inv_macro(expand_gates_macro(v), parts) for k, v in invs.items()}
    # cells
    def cell(mm):
        return gen_cell(mm.group(1), mm.group(2).strip(), mm.group(3), heap, celltp)
    text = re.sub(r"^//@cell\s+(\w+)\s*:\s*(.+?)\s*=\s*(\w+)\s*$", cell, text, flags=re.M)
    # ignored closures must still read exactly as recorded
    meta = {"op": op, "arity": arity, "cfg": cfg, "handlers": {}, "sites": 0, "trace_events": 0}
    used = set()
    for lab, expected in ignores.items():
        if lab not in handlers:
            raise WeaveError(f"ignored closure `{lab}` not found in the extraction")
        got = handlers[lab]["body"]
        if norm(got) != norm(expected):
            if "::alloc(" in got and "::alloc(" not in expected:
                raise StructuralViolation(lab, got)
            raise WeaveError(f"closure `{lab}` (outside the contract) changed: {got!r}")
        used.add(lab)
    # holes
    def hole(mm):
        lab = mm.group(2)
        if lab not in handlers:
            raise WeaveError(f"no closure labelled `{lab}` in the extraction of {op}")
        h = handlers[lab]
        if h.get("unmodelled_closures"):
            # the verifier knows nothing about a closure handed to a library function: obligations depending on it
            # would fail for no semantic reason, so the unit is undecided (bounded stand-in), never a violation
            raise WeaveError(f"closure `{lab}`: a closure literal is handed to a function the weaver has no rule for: {h['unmodelled_closures'][0]}")
        body, nsites = fill_body(lab, h["body"], invs, tokens, h["loops"], parts, nogate, extratag)
        used.add(lab)
        meta["handlers"][lab] = {"sites": nsites, "trace_events": h["trace_events"], "loops": h["loops"], "lines": body.count("\n") + 1}
        meta["sites"] += nsites
        meta["trace_events"] += h["trace_events"]
        ind = mm.group(1)
        return f"{ind}/* ---- extracted from /repo/src/{op}.rs, closure `{lab}` ({cfg}) ---- */\n" + "\n".join(ind + l for l in body.split("\n")) + (f"\n{ind}/* ---- end of extracted body ---- */" if mm.group(3) else f"\n{ind}/* ---- end of extracted body (its value is the result) ---- */")
    text = re.sub(r'^([ \t]*)BODY!\("([^"]+)"\)(;?)', hole, text, flags=re.M)
    missing = set(handlers) - used - skips
    if missing:
        raise WeaveError(f"closures without a contract: {sorted(missing)} (closure structure changed)")
    if "BODY!(" in text or "__inv!(" in text:
        raise WeaveError("unfilled hole")
    out = os.path.join(BUILD, "woven", f"{op_file}_{cfg}.rs")
    os.makedirs(os.path.dirname(out), exist_ok=True)
    prelude = open(os.path.join(CONTRACTS, "prelude.rs")).read()
    full = ("#![allow(unused)]\nuse vstd::prelude::*;\nverus! {\n" + prelude + "\n" + text + "\n} // verus!\nfn main() {}\n")
    with open(out, "w") as f:
        f.write(full)
    meta["woven"] = out
    meta["extracted"] = {k: v["body"] for k, v in handlers.items()}
    return out, meta


if __name__ == "__main__":
    try:
        p, meta = weave(sys.argv[1], sys.argv[2] if len(sys.argv) > 2 else "off")
        print(p)
        print(json.dumps({k: v for k, v in meta.items() if k != "extracted"}, indent=1))
    except WeaveError as e:
        print("weave error:", e, file=sys.stderr)
        sys.exit(2)
