#!/usr/bin/env python3
"""debug helper: weave a template, run Verus, list the failed obligations of functions matching a substring"""
import sys, json
sys.path.insert(0, '/verif/bin')
import check
name, pat = sys.argv[1], (sys.argv[2] if len(sys.argv) > 2 else '')
cfg = sys.argv[3] if len(sys.argv) > 3 else 'off'
import weave
woven, meta = weave.weave(name, cfg)
lines = open(woven).read().split('\n')
import subprocess
p = subprocess.run(['verus', woven, '--error-format=json', '--multiple-errors', '12'], capture_output=True, text=True)
n = 0
for l in p.stderr.split('\n'):
    if not l.startswith('{'): 
        if 'verification results' in l: print(l)
        continue
    d = json.loads(l)
    if d.get('level') != 'error' or 'aborting' in d.get('message', ''): continue
    c = check.classify(d, woven, lines)
    fn = c.get('fn', '?')
    if c['kind'] == 'dup': continue
    if c['kind'] == 'undecided':
        print('UNDECIDED', c.get('text', '')[:200], [ (s['line_start'], s['text'][0]['text'].strip()[:100]) for s in d.get('spans', [])][:2]); continue
    if pat in fn:
        n += 1
        print(f"[{fn}] {c.get('site') or 'post'} | {c.get('property')} {c.get('clause') or c.get('message')} | {c.get('text','')[:110]}")
print('shown', n)
