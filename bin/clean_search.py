#!/usr/bin/env python3
"""no-false-alarm guard for the bounded stand-in: on the unchanged tree the tape search, with the listed
findings excluded, must find nothing for any (template, property) it can be asked about"""
import sys, json
sys.path.insert(0, '/verif/bin')
import check
check.build_replay()
bad = 0
for t in sorted(check.SCENARIOS):
    for pid in ["C01", "C02", "C03", "C04", "C05", "C06", "C07", "C08", "C09", "C10", "C11", "C12", "C13", "C14", "C15", "C17"]:
        d = check.replay_search(t, pid)
        if d:
            bad += 1
            print("HIT", t, pid, d["scenario"], d["tape"], d["violations"][:2])
print("hits:", bad)
