#!/usr/bin/env python3
"""Driver: expand -> weave -> Verus (parallel) -> classify -> evidence  (DESIGN §4, §6).

usage: check.py --property Cxx [--tier quick|thorough]
exit 0: every obligation of the property discharged (known findings printed as KNOWN-FINDING lines)
exit 1: `VIOLATION property=<id> replay=<path>[ no-failing-input-found]`
exit 2: undecided (expansion / weaving / type error / resource limit) - never a violation
"""
import argparse, concurrent.futures as cf, fcntl, glob, hashlib, json, os, re, subprocess, sys, time

VERIF = os.path.dirname(os.path.dirname(os.path.abspath(__file__)))
sys.path.insert(0, os.path.join(VERIF, "bin"))
import expand as expand_mod  # noqa: E402
import weave as weave_mod  # noqa: E402

REPO = os.environ.get("VERIF_REPO", "/repo")
BUILD = os.path.join(VERIF, "build")
EVID = os.path.join(VERIF, "evidence") if os.environ.get("VERIF_REPO", "/repo") == "/repo" else os.path.join(BUILD, "scratch-evidence")
FINDINGS = os.path.join(VERIF, "known-findings.json")

PROPS = [f"C{n:02d}" for n in range(1, 21)]

FIXED_ASSUMPTIONS = [
    "extraction rules R1-R17 (DESIGN 3.3) applied to rustc's own -Zunpretty=expanded output of /repo/src; rustc's pretty-printer is trusted; tracing/tracing-attributes/tracing-futures are replaced by marker stubs in the tracing-on expansion",
    "sequential semantics of std::sync::atomic, arc_swap::{ArcSwap,ArcSwapOption} (rcu / fetch_update = one atomic step), RwLock (never poisoned), Arc (clone = alias): the generated cell shims; memory orderings ignored",
    "user closures (f, condition, reducer, iterators) are deterministic, do not panic and do not call back into the operator; Clone on data values is faithful (clone_val)",
    "profile T units (C18, C19): `interfere_raw` / `call_raw` (any number of atomic steps of the other threads: they preserve the invariant and satisfy `rely`) are assumed; that every thread's checked guarantee implies the others' rely (tickets = sum of the threads' shares) is the standard rely/guarantee meta-argument, not machine-checked; sequentially consistent interleaving at shared-access granularity, one member = one thread, passive sink",
    "peers are spec-conformant as the properties stipulate; sources may greet after the subscribing call returned for the unary operators, for_each, merge, concat, flatten and combine (LATE environment); share is proved without nested fan-out and without another sink acting during a delivery: those histories are explored by the bounded supplement only (coverage.supplementary_bounded_exploration)",
    "assume/guarantee soundness argument of DESIGN 2.6 (environment = most general conformant peer, verified against the handler contracts) is a meta-level step, not machine-checked",
    "partial correctness only (exec_allows_no_decreases_clause on handlers and environment); liveness is phrased as safety at quiescence",
    "interval: fewer than usize::MAX ticks, real time not modelled; flatten: fewer than usize::MAX inner sources per subscription",
    "Verus 0.2026.09.13 and Z3 are trusted",
]


def sh(cmd, **kw):
    return subprocess.run(cmd, capture_output=True, text=True, **kw)


def templates(tier):
    names = []
    for p in sorted(glob.glob(os.path.join(VERIF, "contracts", "*.rs"))):
        b = os.path.basename(p)[:-3]
        text = open(p).read()
        if not re.search(r"^//@(op|pure)\b", text, re.M):
            continue
        if re.search(r"^//@tier\s+thorough", text, re.M) and tier != "thorough":
            continue
        names.append(b)
    return names


def tree_key(tier):
    h = hashlib.sha256()
    files = []
    for root in (os.path.join(REPO, "src"), os.path.join(VERIF, "contracts"), os.path.join(VERIF, "bin"), os.path.join(VERIF, "stubs"), os.path.join(VERIF, "weaver", "src"), os.path.join(VERIF, "replay", "src")):
        for d, _, fs in os.walk(root):
            if "__pycache__" in d:
                continue
            files += [os.path.join(d, f) for f in fs]
    files += [os.path.join(REPO, "Cargo.toml"), os.path.join(REPO, "Cargo.lock"), FINDINGS]
    for f in sorted(files):
        if os.path.exists(f):
            # (paths relative to the repository under check: a scratch copy with the same content has the same key)
            h.update((os.path.relpath(f, REPO) if f.startswith(REPO + os.sep) else f).encode())
            h.update(open(f, "rb").read())
    h.update(tier.encode())
    return h.hexdigest()[:24]


# ------------------------------------------------------------------ one unit = one woven file
TAG = re.compile(r"/\*\s*@(C\d+(?:,C\d+)*)\s+([^*]*?)\s*\*/")


def enclosing_fn(lines, ln):
    for i in range(min(ln, len(lines)) - 1, -1, -1):
        m = re.match(r"\s*(?:pub\s+)?(?:open spec |closed spec |proof |spec )?fn\s+(\w+)", lines[i])
        if m:
            # methods: look for the impl
            name = m.group(1)
            if lines[i].startswith("    "):
                for j in range(i, -1, -1):
                    mm = re.match(r"impl(?:<[^>]*>)?\s+(\w+)", lines[j])
                    if mm:
                        return f"{mm.group(1)}::{name}"
            return name
    return "?"


def classify(diag, woven_path, lines):
    """-> dict(kind, property, clause, site, fn, text) or dict(kind='undecided', ...)"""
    msg = diag.get("message", "")
    spans = diag.get("spans", [])
    code = (diag.get("code") or {}).get("code")

    def span_text(s):
        return (s["text"][0]["text"].strip() if s.get("text") else "")

    def in_woven(s):
        return os.path.basename(s.get("file_name", "")) == os.path.basename(woven_path)

    if code or "rlimit" in msg.lower() or "resource limit" in msg.lower() or "timed out" in msg.lower():
        return {"kind": "undecided", "text": msg, "why": "rustc error" if code else "resource limit"}
    known_kinds = ("precondition not satisfied", "postcondition not satisfied", "assertion failed", "invariant not satisfied", "possible arithmetic", "possible division by zero", "possible overflow", "possible underflow", "overflow", "underflow")
    if not any(k in msg for k in known_kinds):
        # syntax / mode / lifetime errors and anything else that is not a failed proof obligation
        return {"kind": "undecided", "text": msg, "why": "not a verification failure"}
    prim = [s for s in spans if s.get("is_primary")]
    sec = [s for s in spans if not s.get("is_primary")]
    out = {"kind": "failed", "message": msg, "property": None, "clause": None, "site": None, "fn": "?", "text": ""}
    clause_span = None
    site_span = None
    if msg.startswith("precondition not satisfied"):
        clause_span = next((s for s in sec if (s.get("label") or "").startswith("failed precondition")), None)
        site_span = prim[0] if prim else None
    elif msg.startswith("postcondition not satisfied"):
        clause_span = next((s for s in prim), None)
        site_span = next((s for s in sec), None)
    elif "invariant not satisfied" in msg:
        clause_span = prim[0] if prim else None
        site_span = clause_span
    elif msg.startswith("assertion failed"):
        clause_span = prim[0] if prim else None
        site_span = clause_span
    elif "overflow" in msg or "underflow" in msg or "division by zero" in msg or "out of bounds" in msg or "arithmetic" in msg:
        site_span = prim[0] if prim else None
        out["property"], out["clause"] = "C17", msg
    else:
        site_span = prim[0] if prim else None
    if site_span is not None and in_woven(site_span) and msg.startswith("precondition not satisfied"):
        ln = site_span["line_start"]
        if 0 < ln <= len(lines) and "__r.call(h, g, c, __m)" in lines[ln - 1]:
            # every clause of a gated call is asserted separately just before it
            return {"kind": "dup"}
    if clause_span is not None:
        t = span_text(clause_span)
        # the tag sits at the end of the clause line in the woven file
        if in_woven(clause_span):
            ln = clause_span["line_end"]
            full = lines[ln - 1] if 0 < ln <= len(lines) else t
            m = TAG.search(full)
            if m:
                out["properties"] = m.group(1).split(",")
                out["property"], out["clause"] = out["properties"][0], m.group(2)
            out["clause_text"] = full.strip()
        else:
            # a precondition inside vstd: Option::expect / unwrap / panic -> defensive assertion reachable
            out["property"], out["clause"] = "C17", f"{os.path.basename(clause_span.get('file_name',''))}: {t}"
            out["clause_text"] = t
    if site_span is not None and in_woven(site_span):
        ln = site_span["line_start"]
        full = lines[ln - 1] if 0 < ln <= len(lines) else ""
        m = re.search(r"/\*@site (\S+?)\*/", full)
        out["site"] = m.group(1) if m else None
        out["fn"] = enclosing_fn(lines, ln)
        out["text"] = re.sub(r"/\*@site.*?\*/", "", full).strip()
        out["line"] = ln
    if out["property"] is None and ("panic" in msg):
        out["property"], out["clause"] = "C17", msg
    return out


def run_unit(args):
    name, cfg, rlimit, seed = args
    t0 = time.time()
    res = {"unit": f"{name}.{cfg}", "template": name, "cfg": cfg, "status": "ok", "errors": [], "functions": [], "verified": 0, "n_errors": 0, "smt_ms": 0}
    decl = re.search(r"^//@properties[ \t]+(.+)$", open(os.path.join(VERIF, "contracts", name + ".rs")).read(), re.M)
    if decl:
        res["tags"] = sorted(set(decl.group(1).split()))
    opm = re.search(r"^//@op[ \t]+(\w+)", open(os.path.join(VERIF, "contracts", name + ".rs")).read(), re.M)
    res["op"] = opm.group(1) if opm else name
    try:
        woven, meta = weave_mod.weave(name, cfg)
    except weave_mod.StructuralViolation as e:
        res["status"] = "failed"
        res["errors"] = [{"kind": "failed", "property": "C13", "clause": "state allocated outside the subscription", "site": e.label, "fn": e.label, "text": e.text, "message": "a closure outside the per-subscription handler allocates a cell"}]
        res["n_errors"] = 1
        return res
    except weave_mod.WeaveError as e:
        res["status"] = "undecided"
        res["why"] = f"weave: {e}"
        return res
    res["woven"] = woven
    res["meta"] = {k: v for k, v in meta.items() if k not in ("extracted",)}
    res["extracted"] = meta["extracted"]
    text = open(woven).read()
    lines = text.split("\n")
    decl = re.search(r"^//@properties[ \t]+(.+)$", open(os.path.join(VERIF, "contracts", name + ".rs")).read(), re.M)
    res["tags"] = sorted(set(decl.group(1).split())) if decl else sorted(set(m.group(1) for m in TAG.finditer(text)))
    res["tag_counts"] = {}
    for m in TAG.finditer(text):
        for pp in m.group(1).split(","):
            res["tag_counts"][pp] = res["tag_counts"].get(pp, 0) + 1
    res["assumed"] = sorted(set(re.findall(r"#\[verifier::external_body\]\s*pub fn (\w+)", text))) + [f"assume@{i+1}" for i, l in enumerate(lines) if re.search(r"\b(assume|admit)\s*\(", l) and not l.strip().startswith("//")]
    def verus_once(path):
        cmd = ["verus", path, "--output-json", "--time", "--error-format=json", "--multiple-errors", "20"]
        if rlimit:
            cmd += ["--rlimit", str(rlimit)]
        p = sh(cmd)
        try:
            rep = json.loads(p.stdout)
        except Exception:
            rep = None
        diags = []
        for l in p.stderr.split("\n"):
            l = l.strip()
            if l.startswith("{"):
                try:
                    d = json.loads(l)
                except Exception:
                    continue
                if d.get("level") == "error" and "aborting due to" not in d.get("message", ""):
                    diags.append(d)
        return " ".join(cmd), rep, diags, p.stderr

    res["cmd"], rep, diags, stderr = verus_once(woven)
    if rep is not None:
        vr = rep["verification-results"]
        res["verified"], res["n_errors"] = vr.get("verified", 0), vr.get("errors", 0)
        for mod in rep.get("times-ms", {}).get("smt", {}).get("smt-run-module-times", []):
            for f in mod.get("function-breakdown", []):
                res["functions"].append({"fn": f["function"].split("::", 1)[-1], "ok": f["success"], "us": f["time-micros"]})
        res["smt_ms"] = rep.get("times-ms", {}).get("smt", {}).get("total", 0)
    for d in diags:
        c = classify(d, woven, lines)
        if c["kind"] == "dup":
            continue
        c["rendered"] = (d.get("rendered") or "")[:3000]
        c["pass"] = 1
        res["errors"].append(c)
    if rep is None or (rep["verification-results"].get("encountered-vir-error")):
        res["status"] = "undecided"
        res["why"] = "verus did not produce a verification result (type error in the woven file?)\n" + stderr[-3000:]
    elif any(e["kind"] == "undecided" for e in res["errors"]) and not (
            all(e.get("why") == "resource limit" for e in res["errors"] if e["kind"] == "undecided") and any(e["kind"] == "failed" for e in res["errors"])):
        # (a function that ran out of resources next to obligations the solver refuted: the refuted ones stand)
        res["status"] = "undecided"
        res["why"] = "; ".join(e["text"] for e in res["errors"] if e["kind"] == "undecided")[:2000]
    elif res["n_errors"] or res["errors"]:
        res["status"] = "failed"
        # Further passes (failure path only): Verus assumes an assertion after reporting it, which can
        # hide later obligations.  Drop the failed call-site assertions (neither asserted nor assumed),
        # let the affected call go through its precondition-free twin, and look again.
        cur_lines, known_keys = list(lines), {(e.get("fn"), e.get("site"), e.get("clause")) for e in res["errors"]}
        frontier = [e for e in res["errors"] if e["kind"] == "failed" and e.get("line") and e.get("message", "").startswith("assertion failed")]
        for npass in (2, 3, 4):
            if not frontier:
                break
            for e in frontier:
                ln = e["line"] - 1
                cur_lines[ln] = "// [dropped after it failed] " + cur_lines[ln]
                site = e.get("site")
                for k in range(ln, min(ln + 80, len(cur_lines))):
                    if "__r.call(h, g, c, __m);" in cur_lines[k] and f"/*@site {site}*/" in cur_lines[k]:
                        cur_lines[k] = cur_lines[k].replace("__r.call(h, g, c, __m);", "__r.call_unchecked(h, g, c, __m);")
                        break
            path2 = woven[:-3] + f"_pass{npass}.rs"
            open(path2, "w").write("\n".join(cur_lines))
            _, rep2, diags2, _ = verus_once(path2)
            frontier = []
            if rep2 is None:
                break
            for d in diags2:
                c = classify(d, path2, cur_lines)
                if c["kind"] != "failed" or ".gate(" not in (c.get("text") or ""):
                    continue  # later passes only add call-site clauses (protocol actions), never invariants judged in a post-violation state
                key = (c.get("fn"), c.get("site"), c.get("clause"))
                if key in known_keys:
                    continue
                known_keys.add(key)
                c["rendered"] = (d.get("rendered") or "")[:3000]
                c["pass"] = npass
                res["errors"].append(c)
                if c.get("line") and c.get("message", "").startswith("assertion failed"):
                    frontier.append(c)
    elif res["verified"] == 0:
        res["status"] = "undecided"
        res["why"] = "zero obligations generated (vacuity guard)"
    res["wall_s"] = round(time.time() - t0, 2)
    return res


def canary_unit(args):
    """Vacuity guard (thorough tier): `assert(false)` is appended to every extracted handler body; it must
    FAIL in every handler.  A handler in which it verifies has an unsatisfiable precondition (its obligations
    would all be discharged vacuously)."""
    name, cfg = args
    res = {"unit": f"{name}.canary", "template": name, "cfg": cfg, "status": "ok", "vacuous": [], "handlers": 0}
    try:
        woven, meta = weave_mod.weave(name, cfg)
    except Exception as e:
        res.update(status="undecided", why=f"weave: {e}")
        return res
    lines = open(woven).read().split("\n")
    out, marks = [], []     # marks: (line of a canary, handler ordinal); a handler is reachable when ANY of its canaries fails
    tail_body = False
    inside = False
    nh = -1
    for idx, l in enumerate(lines):
        if "/* ---- extracted from" in l:
            # a body whose value is the function result gets its canary in front of it
            e = next(k for k in range(idx, len(lines)) if "/* ---- end of extracted body" in lines[k])
            tail_body = "(its value is the result)" in lines[e]
            inside = True
            nh += 1
            if tail_body:
                out.append("    assert(false); /* @canary */")
                marks.append((len(out), nh))
        elif inside and re.match(r"^\s*return\b.*;\s*(/\*.*\*/\s*)?$", l):
            # a body may leave early: the end is then not the only place to look at
            out.append("    assert(false); /* @canary */")
            marks.append((len(out), nh))
        out.append(l)
        if "/* ---- end of extracted body" in l:
            inside = False
            if not tail_body:
                out.append("    assert(false); /* @canary */")
                marks.append((len(out), nh))
    path = woven[:-3] + "_canary.rs"
    open(path, "w").write("\n".join(out))
    p = sh(["verus", path, "--error-format=json", "--multiple-errors", "40"])
    failed_lines = set()
    if "verification results" not in p.stdout + p.stderr:
        res.update(status="undecided", why="canary file did not verify at all: " + p.stderr[-400:])
        return res
    for l in p.stderr.split("\n"):
        if l.startswith("{"):
            try:
                d = json.loads(l)
            except Exception:
                continue
            if d.get("level") == "error":
                for sp in d.get("spans", []):
                    if sp.get("is_primary"):
                        failed_lines.add(sp["line_start"])
    res["handlers"] = nh + 1
    okv = set(sum((x.split() for x in re.findall(r"^//@vacuous-ok[ \t]+(.+)$", open(os.path.join(VERIF, "contracts", name + ".rs")).read(), re.M)), []))
    for k in range(nh + 1):
        mine = [ml for (ml, kk) in marks if kk == k]
        if mine and not any(ml in failed_lines for ml in mine) and enclosing_fn(out, mine[-1]) not in okv:
            res["vacuous"].append(enclosing_fn(out, mine[-1]))
    if res["vacuous"]:
        res["status"] = "vacuous"
    return res


def pipe_unit():
    """C06: `pipe!` is plain left-to-right application.  rustc itself expands the real macro (text taken
    from /repo/src/pipe.rs) on symbolic identifiers for k = 1..6 stages; the expansion must be fk(..f1(s0)..)."""
    t0 = time.time()
    res = {"unit": "pipe_macro.off", "template": "pipe_macro", "cfg": "off", "status": "ok", "errors": [], "functions": [], "verified": 0, "n_errors": 0, "smt_ms": 0,
           "tags": ["C06"], "tag_counts": {"C06": 6}, "assumed": [], "meta": {"sites": 0}}
    try:
        src = open(os.path.join(REPO, "src", "pipe.rs")).read()
        i = src.index("macro_rules! pipe")
        j = src.index("{", i)
        depth, e = 0, j
        while True:
            depth += src[e] == "{"
            depth -= src[e] == "}"
            e += 1
            if depth == 0:
                break
        macro = src[i:e]
    except Exception as ex:
        res.update(status="undecided", why=f"pipe! macro not found in src/pipe.rs: {ex}")
        return res
    d = os.path.join(BUILD, "pipecheck")
    os.makedirs(d, exist_ok=True)
    lines = ["#![allow(unused)]", "#[macro_export]", macro, "fn main() {}", "fn probe(s0: u32, " + ", ".join(f"f{n}: fn(u32) -> u32" for n in range(1, 7)) + ") {"]
    expect = {}
    for k in range(1, 7):
        args = ", ".join(["s0"] + [f"f{n}" for n in range(1, k + 1)])
        e = "s0"
        for n in range(1, k + 1):
            e = f"f{n}({e})"
        for suffix, tail in (("", ""), ("c", ",")):
            lines.append(f"    let _k{k}{suffix} = pipe!({args}{tail});")
            expect[f"_k{k}{suffix}"] = e
    lines.append("}")
    open(os.path.join(d, "pipecheck.rs"), "w").write("\n".join(lines) + "\n")
    env = dict(os.environ, RUSTC_BOOTSTRAP="1")
    env.pop("RUSTUP_TOOLCHAIN", None)
    p = sh(["rustc", "--edition", "2021", "-Zunpretty=expanded", os.path.join(d, "pipecheck.rs")], env=env)
    if p.returncode != 0:
        res.update(status="undecided", why="rustc could not expand the pipe! probe: " + p.stderr[-800:])
        return res
    got = dict((m.group(1), re.sub(r"\s+", "", m.group(2))) for m in re.finditer(r"let (_k\d+c?) =\s*([^;]+);", p.stdout))
    for name, e in expect.items():
        res["functions"].append({"fn": f"pipe!{name}", "ok": got.get(name) == e, "us": 0})
        if got.get(name) == e:
            res["verified"] += 1
        else:
            res["n_errors"] += 1
            res["errors"].append({"kind": "failed", "property": "C06", "clause": "pipe! is plain left-to-right application", "site": name, "fn": "pipe!",
                                  "text": f"pipe!({name}) expands to {got.get(name)!r}, expected {e!r}", "message": "macro expansion differs from nested application", "rendered": p.stdout[-1500:]})
    if res["n_errors"]:
        res["status"] = "failed"
    res["cmd"] = "rustc --edition 2021 -Zunpretty=expanded build/pipecheck/pipecheck.rs"
    res["wall_s"] = round(time.time() - t0, 2)
    return res


def pipeline(tier):
    t0 = time.time()
    with cf.ThreadPoolExecutor(2) as ex:
        list(ex.map(expand_mod.expand, ["off", "on"]))
    t_expand = time.time() - t0
    rlimit = 30 if tier == "thorough" else 0
    units = [(n, cfg, rlimit, 0) for n in templates(tier) for cfg in ("off", "on")]
    with cf.ThreadPoolExecutor(14) as ex:
        results = list(ex.map(run_unit, units))
    results.append(pipe_unit())
    canaries = []
    if tier == "thorough":
        with cf.ThreadPoolExecutor(14) as ex:
            canaries = list(ex.map(canary_unit, [(n, "off") for n in templates(tier) if not re.search(r"^//@pure", open(os.path.join(VERIF, "contracts", n + ".rs")).read(), re.M)]))
    return {"tier": tier, "units": results, "canaries": canaries, "t_expand_s": round(t_expand, 2), "wall_s": round(time.time() - t0, 2)}


def get_results(tier):
    os.makedirs(os.path.join(BUILD, "cache"), exist_ok=True)
    if not os.path.exists(weave_mod.WEAVER):
        print("weaver binary missing: run MANIFEST.setup_cmd", file=sys.stderr)
        sys.exit(2)
    key = tree_key(tier)
    path = os.path.join(BUILD, "cache", key + ".json")
    lock = open(os.path.join(BUILD, "cache", ".lock"), "w")
    fcntl.flock(lock, fcntl.LOCK_EX)
    try:
        if os.path.exists(path) and not os.environ.get("VERIF_NOCACHE"):
            r = json.load(open(path))
            r["cached"] = True
            return r
        r = pipeline(tier)
        # the tree must not have changed while we ran
        if tree_key(tier) == key:
            json.dump(r, open(path, "w"))
        r["cached"] = False
        return r
    finally:
        fcntl.flock(lock, fcntl.LOCK_UN)


# ------------------------------------------------------------------ replay against the real crate
REPLAY = os.path.join(BUILD, "replay-target", "release", "replay")
SCENARIOS = {"take": ["take1", "take2", "take0", "take2L", "take2R"], "map": ["map", "mapL", "mapR"], "filter": ["filter", "filterR"], "scan": ["scan", "scanR"], "skip": ["skip1", "skip1R"], "from_iter": ["from_iter", "from_iterR"],
             "concat": ["concat2", "concat3", "concat2R", "concat2L", "concat3L"], "concat0": ["concat0"], "interval": ["interval"], "for_each": ["for_each", "for_eachL", "for_eachP", "for_eachPL"], "flatten": ["flatten", "flattenL"], "merge": ["merge2", "merge3", "merge2X", "merge2L", "merge3L", "merge2R"],
             "combine1": ["combine2", "combine2L"], "combine2": ["combine2", "combine2X", "combine2L"], "combine3": ["combine2", "combine2X", "combine2L"], "share": ["share2", "share3", "share3X", "share3XA", "share3L"]}
# C13: two subscriptions of the same source value overlap (suffix O; Q = both started up front); the oracle is the
# property statement: each subscription, replayed alone with the same decisions of its peers, sees the same
OVERLAP_SCENARIOS = {"take": ["take2O", "take2OQ", "take2LOQ"], "map": ["mapO", "mapOQ", "mapLOQ"], "filter": ["filterO", "filterOQ"], "scan": ["scanO", "scanOQ", "scanLOQ"], "skip": ["skip1O", "skip1OQ"],
                     "from_iter": ["from_iterO", "from_iterPO"], "interval": ["intervalO", "intervalOQ"], "concat": ["concat2O", "concat2OQ", "concat2LOQ", "concat2POQ"], "flatten": ["flattenO", "flattenOQ", "flattenLOQ", "flattenPLOQ"],
                     "merge": ["merge2O", "merge2OQ", "merge2LOQ"], "combine1": ["combine2OQ"], "combine2": ["combine2O", "combine2OQ", "combine2LOQ"], "combine3": ["combine2OQ"]}
# scenarios in which the puppet sources are pullable (one answer per Pull) and the sink pulls only with none outstanding
PULL_SCENARIOS = {"take": ["take2P", "take2PR"], "map": ["mapP", "mapPR"], "filter": ["filterP", "filterPR"], "scan": ["scanP", "scanPR"], "skip": ["skip1P", "skip1PR"], "from_iter": ["from_iterP"], "concat": ["concat2P", "concat3P"], "flatten": ["flattenP", "flattenPL"]}


REPLAY_T = os.path.join(BUILD, "replay-target-t", "release", "replay")


def build_replay(tracing=False):
    """(re)build the replay harness against the current working tree of the repository under check
    (tracing=True: the crate with its `tracing` feature, under a subscriber that enables everything)"""
    env = dict(os.environ, CARGO_NET_OFFLINE="true")
    env.pop("RUSTUP_TOOLCHAIN", None)
    manifest = os.path.join(VERIF, "replay", "Cargo.toml")
    if REPO != "/repo":
        # self-test on a scratch copy: same sources, dependency path redirected
        d = os.path.join(BUILD, "replay-crate")
        os.makedirs(os.path.join(d, "src"), exist_ok=True)
        open(os.path.join(d, "Cargo.toml"), "w").write(open(manifest).read().replace('path = "/repo"', f'path = "{REPO}"'))
        import shutil
        for f in os.listdir(os.path.join(VERIF, "replay", "src")):
            shutil.copy(os.path.join(VERIF, "replay", "src", f), os.path.join(d, "src", f))
        if os.path.exists(os.path.join(VERIF, "replay", "Cargo.lock")):
            shutil.copy(os.path.join(VERIF, "replay", "Cargo.lock"), os.path.join(d, "Cargo.lock"))
        manifest = os.path.join(d, "Cargo.toml")
    if tracing:
        p = sh(["cargo", "build", "--release", "--offline", "--features", "tracing", "--manifest-path", manifest, "--target-dir", os.path.join(BUILD, "replay-target-t")], env=env)
        return p.returncode == 0
    p = sh(["cargo", "build", "--release", "--offline", "--manifest-path", manifest, "--target-dir", os.path.join(BUILD, "replay-target")], env=env)
    if p.returncode == 0:
        open(REPLAY + ".built-from", "w").write(replay_stamp())
    return p.returncode == 0


def tracing_diff(template, secs=900):
    """C20, bounded stand-in: the same tapes are run against the crate built without and with its `tracing` feature
    (there under a subscriber that enables every span and event); what the peers see must be the same, tape by tape.
    -> a hit (the first tape on which the two builds differ, with both transcripts) or None"""
    if not build_replay(tracing=True):
        return None
    st = SEARCH_STATS.setdefault((template, "C20"), {"scenarios": [], "runs": 0, "runs_deepest_level": 0, "max_len": 9, "kind": "differential: every decision tape up to the bound is run against the crate built without and with `--features tracing` (all-enabling subscriber) and the transcripts of the peers are compared"})
    for sc in list(SCENARIOS.get(template, [])) + PULL_SCENARIOS.get(template, []):
        try:
            a = subprocess.run([REPLAY, "sig", sc, "--len", "9", "--budget", "200000"], capture_output=True, text=True, timeout=secs).stdout
            b = subprocess.run([REPLAY_T, "sig", sc, "--len", "9", "--budget", "200000"], capture_output=True, text=True, timeout=secs).stdout
        except Exception:
            continue
        la, lb = a.splitlines(), b.splitlines()
        st["scenarios"].append(sc + " (off vs on)")
        st["runs"] += len(la) + len(lb)
        st["runs_deepest_level"] += len(la)
        if la == lb:
            continue
        k = next((i for i in range(min(len(la), len(lb))) if la[i] != lb[i]), min(len(la), len(lb)))
        line = (la + lb)[k] if k >= len(la) else la[k]
        tape = json.loads(line.split("\t")[0])
        da = json.loads(subprocess.run([REPLAY, "run", sc, json.dumps(tape)], capture_output=True, text=True).stdout)
        db = json.loads(subprocess.run([REPLAY_T, "run", sc, json.dumps(tape)], capture_output=True, text=True).stdout)
        ha = [l for l in da.get("history", []) if not l.startswith("!!")]
        hb = [l for l in db.get("history", []) if not l.startswith("!!")]
        d = next((i for i in range(max(len(ha), len(hb))) if (ha[i:i + 1] != hb[i:i + 1])), 0)
        what = f"with the `tracing` feature (every span and event enabled) the peers see {(hb[d:d + 1] or ['<nothing more>'])[0]!r} where without it they see {(ha[d:d + 1] or ['<nothing more>'])[0]!r} (line {d + 1}, same decisions of the peers)"
        return {"scenario": sc, "tape": tape, "violations": [{"property": "C20", "what": what}],
                "history": ["==== without the feature"] + ha + ["==== with --features tracing, every span and event enabled"] + hb,
                "replay_cmd": f"{REPLAY} run {sc} '{json.dumps(tape)}'   # and the same with {REPLAY_T}", "runs": len(la) + len(lb)}
    return None


def replay_stamp():
    """which tree the replay binary was built from: the repository path and a hash of its sources and of the harness"""
    h = hashlib.sha256(REPO.encode())
    for root in (os.path.join(REPO, "src"), os.path.join(VERIF, "replay", "src")):
        for d, _, fs in sorted(os.walk(root)):
            for f in sorted(fs):
                h.update(f.encode()); h.update(open(os.path.join(d, f), "rb").read())
    h.update(open(os.path.join(REPO, "Cargo.toml"), "rb").read())
    return h.hexdigest()


def tree_changed_since_replay_build():
    """the replay binary must be built from the current working tree of the repository under check (and not,
    say, from the scratch copy of an earlier self-test)"""
    try:
        return open(REPLAY + ".built-from").read() != replay_stamp() or not os.path.exists(REPLAY)
    except OSError:
        return True



# profile T (C18, C19): real-thread scenarios; `block` is a deterministic schedule, `stress` repeats a
# barrier-released race (non-deterministic: only ever used to exhibit a run of a violation the verifier reported)
THREAD_SCENARIOS = {"take_T": [("stress", "take1", 60000), ("stress", "take2", 60000)], "merge_T": [("stress", "merge2", 60000), ("stress", "merge3", 60000)],
                    "combine2_T": [("block", "combine2", 1), ("stress", "combine2", 60000)], "combine3_T": [("block", "combine2", 1), ("stress", "combine2", 60000)]}


SEARCH_STATS = {}   # (template, property) -> what the bounded stand-in explored when it found nothing


def thread_search(template, pid, secs):
    st = SEARCH_STATS.setdefault((template, pid), {"scenarios": [], "runs": 0, "runs_deepest_level": 0, "kind": "real-thread scenarios (block = one deterministic schedule, stress = repeated barrier-released race)"})
    for (mode, sc, runs) in THREAD_SCENARIOS[template]:
        try:
            p = subprocess.run([REPLAY, "threads", mode, sc, str(runs)], capture_output=True, text=True, timeout=secs)
            d = json.loads(p.stdout)
        except Exception:
            continue
        st["scenarios"].append(f"threads {mode} {sc}")
        st["runs"] += d.get("runs", 0)
        st["runs_deepest_level"] += d.get("runs", 0) if mode == "block" else 1   # repeated races are not distinct cases
        if any(v["property"] == pid for v in d.get("violations", [])):
            d["scenario"] = f"threads {mode} {sc}"
            d["tape"] = []
            d["replay_cmd"] = f"{REPLAY} threads {mode} {sc} {runs}" + ("" if mode == "block" else "   # a race: repeat until it shows")
            return d
    return None


# Histories the proved profile of an operator does not contain, although the properties quantify over them
# (share: a fan-out nested inside another, or another sink acting during a delivery).
# They are explored by the bounded stand-in on every run, as a labelled supplement to the proof.
PROFILE_GAPS = {
    "share": {"scenarios": ["share2", "share3", "share3X", "share3X@[0,0,2,0,0,2,0,0]#16", "share3XA", "share3XA@[0,0,0,2,0,0]#15", "share2L", "share3XAL"], "why": "nested fan-out (a sink pulls from inside its handler and the source answers at once), another sink acting during a delivery (share3X), a sink attaching from inside a handler (share3XA) and an upstream that greets after the subscribing call (L) are outside profile R of the unit share",
              "properties": ["C01", "C02", "C03", "C04", "C05", "C12", "C17"]},
}


def gap_search(pid, key):
    """-> (hit or None, stats).  One pass per operator over every tape of its gap scenarios collects the first
    failing tape of every property; the result is cached per tree like the pipeline."""
    path = os.path.join(BUILD, "cache", f"{key}.gaps.json")
    lock = open(os.path.join(BUILD, "cache", ".gaps.lock"), "w")
    fcntl.flock(lock, fcntl.LOCK_EX)
    try:
        try:
            cache = json.load(open(path))
        except Exception:
            cache = {}
        stats, hit = [], None
        for op, gap in sorted(PROFILE_GAPS.items()):
            if pid not in gap["properties"]:
                continue
            if op not in cache:
                if tree_changed_since_replay_build() and not build_replay():
                    continue
                excl = []
                for f in load_findings().get("findings", []):
                    if f.get("replay") and f["replay"]["scenario"].rstrip("LXPROAQ") in [x.split("@")[0].rstrip("LXPROAQ") for x in gap["scenarios"]]:
                        for x in f.get("excludes", [f["replay"]["expect"]]):
                            excl += ["--exclude", x]
                entry = {"scenarios": [], "runs": 0, "hits": {}}
                for sc in gap["scenarios"]:
                    # `name@prefix#len`: every tape starts with a fixed set-up (share3X: three sinks attached, upstream greeted)
                    m = re.fullmatch(r"(\w+)@(\[[\d, ]*\])#(\d+)", sc)
                    args = [m.group(1), "--prefix", m.group(2), "--len", m.group(3)] if m else [sc, "--len", str(gap.get("len", 10))]
                    try:
                        p = subprocess.run([REPLAY, "collect"] + args + ["--budget", "3000000"] + excl, capture_output=True, text=True, timeout=900)
                        d = json.loads(p.stdout)
                    except Exception:
                        continue
                    entry["scenarios"].append(sc + (" (budget exhausted)" if d.get("budget_exhausted") else ""))
                    entry["runs"] += d.get("runs", 0)
                    for pp, hh in d.get("hits", {}).items():
                        entry["hits"].setdefault(pp, dict(hh, scenario=(m.group(1) if m else sc)))
                cache[op] = entry
                json.dump(cache, open(path, "w"))
            e = cache[op]
            stats.append({"operator": op, "outside_the_proved_profile": gap["why"], "scenarios": e["scenarios"], "runs": e["runs"], "max_len": gap.get("len", 10)})
            if pid in e.get("hits", {}) and hit is None:
                hit = dict(e["hits"][pid], operator=op, why=gap["why"])
        return hit, stats
    finally:
        fcntl.flock(lock, fcntl.LOCK_UN)


def replay_run(scenario, tape):
    p = sh([REPLAY, "run", scenario, json.dumps(tape)])
    try:
        return json.loads(p.stdout)
    except Exception:
        return None


def replay_search(template, pid, secs=900):
    if tree_changed_since_replay_build() and not build_replay():
        return None
    if template in THREAD_SCENARIOS:
        return thread_search(template, pid, secs)
    if pid == "C20":
        d = tracing_diff(template, secs)
        if d:
            return d
    # histories of listed findings are not new violations
    excl = []
    for f in load_findings().get("findings", []):
        if f.get("replay") and f["replay"]["scenario"].rstrip("LXPROAQ") in [x.rstrip("LXPROAQ") for x in SCENARIOS.get(template, [])] and (f.get("property") == pid or f.get("kind") == "replay-only"):
            for x in f.get("excludes", [f["replay"]["expect"]]):
                excl += ["--exclude", x]
    scs = list(SCENARIOS.get(template, []))
    if pid in ("C14", "C06", "C15", "C09", "C11", "C07"):
        scs += PULL_SCENARIOS.get(template, [])
    if pid == "C13" or (pid == "C16" and template == "interval"):   # (C16: "counting from 0 independently of other subscriptions")
        scs += OVERLAP_SCENARIOS.get(template, [])
    st = SEARCH_STATS.setdefault((template, pid), {"scenarios": [], "runs": 0, "runs_deepest_level": 0, "max_len": 12, "kind": "exhaustive enumeration of decision tapes (iterative deepening) of the most general conformant peers against the real crate"})
    for sc in scs:
        try:
            p = subprocess.run([REPLAY, "search", sc, "--property", pid, "--len", "12", "--budget", "1500000"] + excl, capture_output=True, text=True, timeout=secs)
            d = json.loads(p.stdout)
        except Exception:
            continue
        if d.get("tape") is not None:
            d["scenario"] = sc
            return d
        st["scenarios"].append(sc + (" (budget exhausted before length 12)" if d.get("budget_exhausted") else ""))
        st["runs"] += d.get("runs", 0)
        st["runs_deepest_level"] += d.get("runs_deepest_level", 0)
    return None


# ------------------------------------------------------------------ per property
def load_findings():
    if os.path.exists(FINDINGS):
        return json.load(open(FINDINGS))
    return {"findings": [], "fixed": []}


def finding_matches(f, unit, e):
    if f.get("kind") == "replay-only":
        return False
    if f.get("property") != e.get("property"):
        return False
    # template / fn / site are regular expressions (full match): one entry covers the arities of a macro
    if f.get("template") and not re.fullmatch(f["template"], unit["template"]):
        return False
    if f.get("fn") and not re.fullmatch(f["fn"], e.get("fn") or ""):
        return False
    if f.get("site") and not re.fullmatch(f["site"], e.get("site") or ""):
        return False
    if f.get("clause") and f["clause"] != e.get("clause"):
        return False
    return True


def obligation_id(unit, e):
    where = e.get("site") or ("step" if (e.get("message") or "").startswith("precondition") else "post")
    return f"{unit['unit']}.{e.get('fn','?')}.{where}.{(e.get('clause') or 'untagged')[:60]}".replace(" ", "_").replace("/", "_")


def check_property(pid, tier, res):
    t0 = time.time()
    findings = load_findings()
    # a unit matters to a property when its template declares the property (//@properties) or one of its failed
    # obligations is attributed to it; an undecided unit whose declaration is unknown matters to every property
    relevant = [u for u in res["units"] if pid in u.get("tags", PROPS) or any(pid in e.get("properties", [e.get("property")]) for e in u["errors"])]
    if pid == "C20":
        relevant = [u for u in relevant if u["cfg"] == "on" or u["status"] == "undecided"]
    undecided = [u for u in relevant if u["status"] == "undecided"]
    viol, known = [], []
    for u in relevant:
        for e in u["errors"]:
            if e["kind"] != "failed":
                continue
            p = e.get("property")
            if p is not None and pid in e.get("properties", [p]):
                p = pid
                e = dict(e, property=pid)
            if p is None:
                # an untagged obligation that fails: attribute to every property (conservative), flagged
                p = pid
                e = dict(e, property=pid, clause=(e.get("clause") or "untagged obligation"))
            if p != pid and not (pid == "C20" and u["cfg"] == "on"):
                continue
            e = dict(e, property=pid) if pid == "C20" else e
            f = next((f for f in findings.get("findings", []) if finding_matches(f, u, dict(e, property=p))), None)
            if f:
                known.append((u, e, f))
            else:
                viol.append((u, e))
    if pid == "C20":
        # tracing-on units must fail/pass exactly like tracing-off units: only obligations that fail
        # in `on` but not in `off` are tracing's doing
        off = {(u["template"], e.get("fn"), e.get("site"), e.get("clause")) for u in res["units"] if u["cfg"] == "off" for e in u["errors"]}
        viol = [(u, e) for (u, e) in viol if (u["template"], e.get("fn"), e.get("site"), e.get("clause")) not in off]
        known = []
    return relevant, undecided, viol, known, time.time() - t0


def write_evidence(pid, tier, res, relevant, viol, known, wall, bounded=None):
    os.makedirs(EVID, exist_ok=True)
    findings = load_findings().get("findings", [])
    obligations = discharged = 0
    units, samples, assumed, excluded = [], [], set(), []
    for u in relevant:
        if u["status"] == "undecided":
            continue
        fns = u.get("functions", [])
        # functions whose every failing obligation is a listed finding (of whatever property): excluded from both counts
        by_fn = {}
        for e in u["errors"]:
            if e.get("kind") != "failed":
                continue
            props = e.get("properties") or [e.get("property")]
            listed = any(finding_matches(f, u, dict(e, property=pp)) for f in findings for pp in props)
            by_fn.setdefault(e.get("fn"), []).append(listed)
        kf = {fn for fn, ls in by_fn.items() if ls and all(ls)}
        n_failed_fns = len([f for f in fns if not f["ok"]])
        n_kf = min(len(kf), n_failed_fns)
        obligations += max(u.get("verified", 0) + u.get("n_errors", 0) - n_kf, 0)
        discharged += u.get("verified", 0)
        excluded += [{"unit": u["unit"], "fn": fn} for fn in sorted(kf)]
        units.append({"unit": u["unit"], "functions_under_contract": len(fns), "verified": u.get("verified", 0), "errors": u.get("n_errors", 0), "excluded_known_finding_functions": n_kf,
                      "smt_ms": u.get("smt_ms", 0), "tagged_clauses": u.get("tag_counts", {}).get(pid, 0), "call_sites": u.get("meta", {}).get("sites", 0)})
        assumed.update(u.get("assumed", []))
    for u in relevant[:6]:
        if u.get("woven") and os.path.exists(u["woven"]):
            for line in open(u["woven"]).read().split("\n"):
                m = TAG.search(line)
                if m and pid in m.group(1).split(",") and len(samples) < 12:
                    samples.append({"unit": u["unit"], "clause": line.strip()[:300]})
    ev = {
        "property_id": pid, "tier": tier, "seed": int(os.environ.get("VERIF_SEED", "0") or 0), "level": "proof",
        "coverage": {
            "obligations": obligations, "discharged": discharged,
            "checker_cmd": "verus <woven>.rs --output-json --time --error-format=json --multiple-errors 20 (one run per unit; units = contract template x {tracing off,on})",
            "trusted_base": ["Verus 0.2026.09.13 / Z3", "rustc -Zunpretty=expanded", "weaver rewrite rules R1-R17", "cell shims (sequential model of atomics / ArcSwap / RwLock)"],
            "explanation": "obligations = Verus verification conditions (one per function: handler, environment function, shim, lemma) of every woven unit that carries a clause tagged with this property; functions whose only failing obligations are listed known findings are excluded from both counts and listed under known_findings",
            "units": units, "samples": samples,
            "known_findings": [{"unit": u["unit"], "fn": e.get("fn"), "site": e.get("site"), "clause": e.get("clause"), "what": f.get("what")} for (u, e, f) in known],
            "functions_excluded_because_of_listed_findings": excluded,
            "back_end": "Verus -> Z3 (SMT)", "solver_ms_total": sum(x["smt_ms"] for x in units),
            "pipeline_cached": res.get("cached", False),
        },
        "assumptions": FIXED_ASSUMPTIONS + ["external_body / assumed items in the woven files: " + ", ".join(sorted(assumed))],
        "wall_s": round(wall, 2), "violations": len(viol),
    }
    if bounded:
        # some unit of this property could not be decided by the verifier on this tree: the run as a whole is an
        # exploration (the discharged obligations of the other units are still reported above)
        ev["level"] = "exploration"
        ev["coverage"].update({
            "evaluations": sum(x.get("runs", 0) for x in bounded),
            "distinct_nontrivial": sum(x.get("runs_deepest_level", 0) for x in bounded),
            "rule": "bounded stand-in for the units the verifier could not decide: every decision tape of the puppet peers up to length 10 (or the stated run budget) is run once against the real crate with the protocol and functional monitors on; distinct_nontrivial counts the tapes of the deepest completed length only (each is a distinct maximal decision sequence and drives at least the subscription and one peer decision); for real-thread scenarios a deterministic schedule counts once and a repeated race counts as one case",
            "bounded_units": bounded,
        })
        ev["coverage"]["samples"] = [{"unit": x["template"], "scenarios": x.get("scenarios"), "runs": x.get("runs"), "max_len": x.get("max_len")} for x in bounded] + ev["coverage"]["samples"]
    json.dump(ev, open(os.path.join(EVID, pid + ".json"), "w"), indent=1)


def selftest(pid):
    """thorough tier: every stored seeded change that this property's check is recorded to catch is applied
    to a scratch copy of the repository (outside /repo and /verif, removed afterwards) and must be reported"""
    import shutil, tempfile
    missed = []
    for d in sorted(glob.glob(os.path.join(VERIF, "seeded", "*"))):
        try:
            meta = json.load(open(os.path.join(d, "meta.json")))
        except Exception:
            continue
        # each stored change is replayed once: by the check of the property it was written against (or, when that
        # check is not among those recorded as reporting it, by the first one recorded)
        cb = meta.get("caught_by", [])
        owner = meta.get("property") if meta.get("property") in cb else (cb[0] if cb else None)
        if pid != owner:
            continue
        scratch = tempfile.mkdtemp(prefix="verif_seed_")
        try:
            # everything the manifest refers to (its [[test]] entries name files under tests/), but no build output
            for f in os.listdir("/repo"):
                if f in ("target", ".git"):
                    continue
                src = os.path.join("/repo", f)
                (shutil.copytree if os.path.isdir(src) else shutil.copy)(src, os.path.join(scratch, f))
            ap = sh(["git", "apply", os.path.join(d, "patch.diff")], cwd=scratch)
            if ap.returncode != 0:
                print(f"  seed {os.path.basename(d)}: patch does not apply to the current tree (skipped)")
                continue
            env = dict(os.environ, VERIF_REPO=scratch, VERIF_TIER="quick")
            r = subprocess.run([sys.executable, os.path.abspath(__file__), "--property", pid, "--tier", "quick", "--no-evidence"], capture_output=True, text=True, env=env)
            ok = r.returncode == 1 and "VIOLATION" in r.stdout
            print(f"  seed {os.path.basename(d)}: {'reported' if ok else 'MISSED (exit %d)' % r.returncode}")
            if not ok:
                missed.append(os.path.basename(d))
        finally:
            shutil.rmtree(scratch, ignore_errors=True)
    return missed


def main():
    ap = argparse.ArgumentParser()
    ap.add_argument("--property", required=True)
    ap.add_argument("--tier", default=os.environ.get("VERIF_TIER", "quick"))
    ap.add_argument("--no-evidence", action="store_true", help="(self-test on a scratch copy) do not rewrite the evidence and replay files")
    a = ap.parse_args()
    t0 = time.time()
    res = get_results(a.tier)
    relevant, undecided, viol, known, _ = check_property(a.property, a.tier, res)
    vac = [c for c in res.get("canaries", []) if c["status"] == "vacuous" and any(u["template"] == c["template"] for u in relevant)]
    if vac:
        for c in vac:
            print(f"UNDECIDED unit={c['unit']}: vacuous precondition in {c['vacuous']} (the canary assert(false) verified)", file=sys.stderr)
        sys.exit(2)
    if undecided:
        for u in undecided:
            print(f"UNDECIDED unit={u['unit']}: {u.get('why','')[:1500]}", file=sys.stderr)
        # the verifier could not be brought to bear on this unit (the code left the supported subset or the
        # contract's closure structure).  Bounded stand-in, labelled as such: exhaustive tape search against
        # the real crate; a concrete failing history is reported, absence of one leaves the check undecided.
        os.makedirs(os.path.join(EVID, "replay"), exist_ok=True)
        hit = False
        for t in sorted({u["template"] for u in undecided}):
            cex = replay_search(t, a.property)
            if cex:
                hit = True
                path = os.path.join(EVID, "replay", f"{a.property}-{t}.bounded-search.json")
                json.dump({"property": a.property, "obligation": f"{t}: bounded tape search (verifier undecided: {[u.get('why','')[:300] for u in undecided if u['template']==t][0]})",
                           "level": "bounded exploration, not a proof", "failing_input": {"scenario": cex["scenario"], "tape": cex["tape"], "violations": cex["violations"], "history": cex["history"],
                           "replay_cmd": cex.get("replay_cmd") or f"{REPLAY} run {cex['scenario']} '{json.dumps(cex['tape'])}'"}}, open(path, "w"), indent=1)
                print(f"VIOLATION property={a.property} replay={path}")
        if hit:
            sys.exit(1)
        stats = [dict(SEARCH_STATS.get((t, a.property), {}), template=t, verifier_undecided_because=[u.get("why", "")[:300] for u in undecided if u["template"] == t][0]) for t in sorted({u["template"] for u in undecided})]
        if all(x.get("scenarios") and x.get("runs_deepest_level", 0) >= 2 for x in stats):
            # the stated bounded stand-in explored these units and found nothing: the property held on everything
            # explored; this run's evidence is labelled exploration (bounded), never proof
            for x in stats:
                print(f"BOUNDED property={a.property} unit={x['template']}: verifier undecided; bounded stand-in found no violation in {x['runs']} runs over {x['scenarios']}", file=sys.stderr)
            if not a.no_evidence:
                write_evidence(a.property, a.tier, res, relevant, [], known, time.time() - t0, bounded=stats)
            for (u, e, f) in {(id(f)): (u, e, f) for (u, e, f) in known}.values():
                print(f"KNOWN-FINDING: property={a.property} {f.get('id','')} {f.get('what','')}")
            print(f"OK property={a.property} tier={a.tier} (bounded for {[x['template'] for x in stats]}) wall={time.time()-t0:.1f}s")
            sys.exit(0)
        sys.exit(2)
    if not relevant:
        print(f"no unit carries obligations for {a.property}", file=sys.stderr)
        sys.exit(2)
    if not a.no_evidence:
        write_evidence(a.property, a.tier, res, relevant, viol, known, time.time() - t0)
    if a.tier == "thorough" and known and (not tree_changed_since_replay_build() or build_replay()):
        for f in {id(f): f for (_, _, f) in known}.values():
            r = f.get("replay")
            if r:
                d = replay_run(r["scenario"], r["tape"])
                ok = bool(d) and any(r["expect"] in v["what"] for v in d.get("violations", []))
                print(f"  replayed {f.get('id')} on the real crate: {r['scenario']} {r['tape']} -> {'reproduced' if ok else 'NOT reproduced'}")
    # findings outside the verified profiles: reproduced on the real crate on every run
    ro = [f for f in load_findings().get("findings", []) if f.get("kind") == "replay-only" and f.get("property") == a.property]
    if ro and (not tree_changed_since_replay_build() or build_replay()):
        for f in ro:
            r = f["replay"]
            d = replay_run(r["scenario"], r["tape"])
            if d and any(r["expect"] in v["what"] for v in d.get("violations", [])):
                print(f"KNOWN-FINDING: property={a.property} {f.get('id','')} {f.get('what','')} [reproduced on the real crate: {r['scenario']} {r['tape']}]")
    seen = set()
    for (u, e, f) in known:
        k = (f.get("id"), f.get("what"))
        if k in seen:
            continue
        seen.add(k)
        print(f"KNOWN-FINDING: property={a.property} {f.get('id','')} {f.get('what','')}")
    if not viol:
        # Cross-attribution by a concrete counterexample: an obligation tagged with ANOTHER property failed in
        # a unit that also carries this property (Verus stops trusting the function at its first failures, and
        # one invariant part serves several properties).  The failed obligation is the verifier's verdict; which
        # properties the change breaks is then settled on the real code: exhaustive tape search for THIS
        # property in that operator's scenarios.  Only a replayed failing history is reported.
        findings = load_findings().get("findings", [])
        suspects = []
        # .. or in another unit of the same operator (a profile that does not itself carry this property)
        ops = {u.get("op") for u in relevant}
        for u in [u for u in res["units"] if u in relevant or (u.get("op") in ops and "_T" not in u["template"])]:
            if u["status"] != "failed":
                continue
            unlisted = [e for e in u["errors"] if e.get("kind") == "failed" and not any(finding_matches(f, u, dict(e, property=pp)) for f in findings for pp in (e.get("properties") or [e.get("property")]))]
            if unlisted and u["template"] not in suspects:
                suspects.append(u["template"])
        for t in suspects:
            cex = replay_search(t, a.property)
            if cex:
                os.makedirs(os.path.join(EVID, "replay"), exist_ok=True)
                path = os.path.join(EVID, "replay", f"{a.property}-{t}.cross-attributed.json")
                other = sorted({(e.get("property"), e.get("clause")) for u in res["units"] if u["template"] == t for e in u["errors"] if e.get("kind") == "failed"})[:6]
                json.dump({"property": a.property, "obligation": f"{t}: obligations failed under other tags {other}; this property's violation is shown by the replayed history",
                           "failing_input": {"scenario": cex["scenario"], "tape": cex["tape"], "violations": cex["violations"], "history": cex["history"],
                                             "replay_cmd": cex.get("replay_cmd") or f"{REPLAY} run {cex['scenario']} '{json.dumps(cex['tape'])}'"}}, open(path, "w"), indent=1)
                print(f"VIOLATION property={a.property} replay={path}")
                sys.exit(1)
    gap_stats = []
    if not viol:
        hit, gap_stats = gap_search(a.property, tree_key(a.tier))
        if hit:
            os.makedirs(os.path.join(EVID, "replay"), exist_ok=True)
            path = os.path.join(EVID, "replay", f"{a.property}-{hit['operator']}.profile-gap.json")
            json.dump({"property": a.property, "obligation": f"{hit['operator']}: bounded exploration of histories outside the proved profile ({hit['why']})",
                       "level": "bounded exploration, not a proof",
                       "failing_input": {"scenario": hit["scenario"], "tape": hit["tape"], "violations": hit["violations"], "history": hit["history"],
                                         "replay_cmd": f"{REPLAY} run {hit['scenario']} '{json.dumps(hit['tape'])}'"}}, open(path, "w"), indent=1)
            print(f"VIOLATION property={a.property} replay={path}")
            sys.exit(1)
        if gap_stats and not a.no_evidence:
            # recorded next to the proof figures, as what it is
            try:
                ev = json.load(open(os.path.join(EVID, a.property + ".json")))
                ev["coverage"]["supplementary_bounded_exploration"] = gap_stats
                json.dump(ev, open(os.path.join(EVID, a.property + ".json"), "w"), indent=1)
            except Exception:
                pass
    if viol:
        os.makedirs(os.path.join(EVID, "replay"), exist_ok=True)
        done = set()
        cex_cache = {}
        for (u, e) in viol:
            oid = obligation_id(u, e)
            if oid in done:
                continue
            done.add(oid)
            path = os.path.join(EVID, "replay", f"{a.property}-{re.sub(r'[^A-Za-z0-9_.#-]', '_', oid)[:150]}.json")
            cex = cex_cache.get(u["template"])
            if cex is None and u["template"] not in cex_cache:
                cex = cex_cache[u["template"]] = replay_search(u["template"], a.property)
            json.dump({"property": a.property, "obligation": oid, "unit": u["unit"], "function": e.get("fn"), "site": e.get("site"),
                       "clause": e.get("clause"), "clause_text": e.get("clause_text"), "statement": e.get("text"), "verifier_message": e.get("message"),
                       "verifier_output": e.get("rendered"),
                       "failing_input": ({"scenario": cex["scenario"], "tape": cex["tape"], "violations": cex["violations"], "history": cex["history"],
                                          "replay_cmd": cex.get("replay_cmd") or f"{REPLAY} run {cex['scenario']} '{json.dumps(cex['tape'])}'"} if cex else None),
                       "note": (("failing run found by a real-thread scenario against the real crate (`block` = deterministic schedule, `stress` = repeated race)" if cex["scenario"].startswith("threads ") else "failing history found by exhaustive tape search against the real crate and replayed there") if cex else
                                "Verus gives no counterexample; the bounded tape search against the real crate found no failing history for this property")},
                      open(path, "w"), indent=1)
            print(f"VIOLATION property={a.property} replay={path}" + ("" if cex else " no-failing-input-found"))
        sys.exit(1)
    if a.tier == "thorough" and REPO == "/repo":
        missed = selftest(a.property)
        if missed:
            # a statement about the machinery, not about the tree under check: reported, never an exit code
            print(f"SELFTEST: the machinery did not report seeded change(s) {missed}", file=sys.stderr)
    n = sum(1 for u in relevant)
    print(f"OK property={a.property} tier={a.tier} units={n} cached={res.get('cached')} wall={time.time()-t0:.1f}s")
    sys.exit(0)


if __name__ == "__main__":
    main()
