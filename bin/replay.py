#!/usr/bin/env python3
"""Show a replay file: the failed obligation, the verifier's output and, when the native search found
one, the failing history (replayed against the real crate by the replay harness)."""
import json, sys
d = json.load(open(sys.argv[1]))
print(json.dumps(d, indent=1))
