#!/usr/bin/env python3
"""Replay a violation file: print the failed obligation and the verifier's output; when the file
carries a failing history (tape), run it again against the real crate (rebuilt from /repo) and show it."""
import json, os, subprocess, sys
V = os.path.dirname(os.path.dirname(os.path.abspath(__file__)))
d = json.load(open(sys.argv[1]))
print("property   :", d.get("property"))
print("obligation :", d.get("obligation"))
print("clause     :", d.get("clause"))
print("statement  :", d.get("statement"))
print("verifier   :", d.get("verifier_message"))
print((d.get("verifier_output") or "").rstrip())
fi = d.get("failing_input")
if not fi:
    print("no failing input was found (", d.get("note"), ")")
    sys.exit(1)
env = dict(os.environ, CARGO_NET_OFFLINE="true"); env.pop("RUSTUP_TOOLCHAIN", None)
subprocess.run(["cargo", "build", "--release", "--offline", "--manifest-path", os.path.join(V, "replay", "Cargo.toml"), "--target-dir", os.path.join(V, "build", "replay-target")], env=env, capture_output=True)
exe = os.path.join(V, "build", "replay-target", "release", "replay")
if fi["scenario"].startswith("threads "):
    # real-thread scenario (profile T): `block` is a deterministic schedule, `stress` a repeated race
    p = subprocess.run([exe] + fi["scenario"].split() + (["200000"] if " stress " in fi["scenario"] else []), capture_output=True, text=True)
else:
    p = subprocess.run([exe, "run", fi["scenario"], json.dumps(fi["tape"])], capture_output=True, text=True)
r = json.loads(p.stdout)
print("replayed on the real crate:", fi["scenario"], fi["tape"])
for l in r["history"]:
    print("   ", l)
for v in r["violations"]:
    print("   =>", v["property"], v["what"])
sys.exit(1 if r["violations"] else 0)
