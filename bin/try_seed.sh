#!/bin/bash
# run the checks of the given properties against a seeded change applied to /repo, then undo it
patch=$1; shift
git -C /repo apply $patch || exit 2
for p in "$@"; do echo "--- $p"; python3 /verif/bin/check.py --property $p --no-evidence 2>&1 | cut -c1-260 | head -12; echo "exit=${PIPESTATUS[0]}"; done
git -C /repo checkout -- .
