#!/bin/bash
# quick look: weave + verus + condensed errors
cd "$(dirname "$0")/.." && python3 bin/weave.py $1 ${2:-off} >/dev/null || exit 2
verus build/woven/$1_${2:-off}.rs --error-format=json --multiple-errors 10 2>&1 | python3 -c "
import json,sys
n=0
for l in sys.stdin:
    try: d=json.loads(l)
    except: print(l.strip()[:200]); continue
    if d.get('level')=='error':
        n+=1
        if n>int('${VQ_HEAD:-14}'): continue
        print(d['message'][:200]);
        for s in d['spans']: print('   ',s['line_start'], s.get('label'), s['is_primary'], (s['text'][0]['text'].strip()[:170] if s['text'] else ''))
print('errors listed:',n)
"
