#!/bin/bash
# quick look: weave + verus + condensed errors
cd /verif && python3 bin/weave.py $1 ${2:-off} >/dev/null || exit 2
verus build/woven/$1_${2:-off}.rs --error-format=json --multiple-errors 10 2>&1 | python3 -c "
import json,sys
for l in sys.stdin:
    try: d=json.loads(l)
    except: print(l.strip()); continue
    if d.get('level')=='error':
        print(d['message'][:300]);
        for s in d['spans']: print('   ',s['line_start'], s.get('label'), s['is_primary'], s['text'][0]['text'].strip()[:220] if s['text'] else '')
" | head -${VQ_HEAD:-40}
