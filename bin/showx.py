import json,sys
d=json.load(open(sys.argv[1]))
print(d['labels'])
for h in d['handlers']:
    print('=====',h['label'],h['kind'],h['params'],h['cells'],'ev',h['trace_events'],'loops',h['loops']); print(h['body'])
