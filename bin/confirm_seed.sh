#!/bin/bash
# confirm a seeded change in its scratch worktree: suite passes with it, demo fails with it, demo passes without it
wt=$1; id=$2; log=/tmp/confirm_$id.log
cd $wt || exit 2
export CARGO_NET_OFFLINE=true
{
echo "== suite with change"; cargo test --workspace --no-fail-fast --offline 2>&1 | grep -E "^test result|FAILED|failed" | sort | uniq -c
demo=$(ls seeded/*.rs | head -1)
cp $demo tests/zz_demo.rs
echo "== demo with change (must fail)"; cargo test --offline --test zz_demo 2>&1 | grep -E "^test result|^test " | head -20
git diff -- src > /tmp/confirm_$id.patch; git apply -R /tmp/confirm_$id.patch
echo "== demo without change (must pass)"; cargo test --offline --test zz_demo 2>&1 | grep -E "^test result|^test " | head -20
git apply /tmp/confirm_$id.patch
rm -f tests/zz_demo.rs
echo "== done"
} > $log 2>&1
