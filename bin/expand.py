#!/usr/bin/env python3
"""Front end: ask rustc for the macro expansion of /repo's real sources (DESIGN §3.1).

Writes build/expand/<cfg>/expanded.rs for cfg in {off, on} (tracing feature off / on).
The derived manifest points [lib] path at /repo/src/lib.rs itself, so the text expanded is the
working tree as it is now.  Exit code 2 = expansion failed (undecided), never a violation.
"""
import os, subprocess, sys, tomllib, shutil, hashlib, json

VERIF = os.path.dirname(os.path.dirname(os.path.abspath(__file__)))
REPO = os.environ.get("VERIF_REPO", "/repo")
BUILD = os.path.join(VERIF, "build")


def derive_manifest(cfg: str, outdir: str):
    with open(os.path.join(REPO, "Cargo.toml"), "rb") as f:
        m = tomllib.load(f)
    pkg = m["package"]
    lines = ["[package]", f'name = "{pkg["name"]}"', f'version = "{pkg["version"]}"',
             f'edition = "{pkg.get("edition", "2021")}"', "", "[lib]",
             f'path = "{REPO}/src/lib.rs"', "doctest = false", "", "[dependencies]"]
    for name, spec in m.get("dependencies", {}).items():
        if isinstance(spec, str):
            lines.append(f'{name} = "{spec}"')
        else:
            parts = []
            for k, v in spec.items():
                if isinstance(v, bool):
                    parts.append(f"{k} = {'true' if v else 'false'}")
                elif isinstance(v, list):
                    parts.append(f"{k} = [" + ", ".join(f'"{x}"' for x in v) + "]")
                else:
                    parts.append(f'{k} = "{v}"')
            lines.append(f"{name} = {{ " + ", ".join(parts) + " }")
    lines += ["", "[features]"]
    for feat, items in m.get("features", {}).items():
        # the two dependency-feature entries are dropped (DESIGN §3.1): the stub crates have no such feature
        items = [i for i in items if i not in ("async_executors?/tracing", "async_nursery?/tracing")]
        lines.append(f"{feat} = [" + ", ".join(f'"{x}"' for x in items) + "]")
    if cfg == "on":
        lines += ["", "[patch.crates-io]",
                  f'tracing = {{ path = "{VERIF}/stubs/tracing" }}',
                  f'tracing-attributes = {{ path = "{VERIF}/stubs/tracing-attributes" }}',
                  f'tracing-futures = {{ path = "{VERIF}/stubs/tracing-futures" }}']
    lines += ["", "[workspace]", ""]
    os.makedirs(outdir, exist_ok=True)
    with open(os.path.join(outdir, "Cargo.toml"), "w") as f:
        f.write("\n".join(lines))
    lock = os.path.join(REPO, "Cargo.lock")
    if os.path.exists(lock):
        shutil.copy(lock, os.path.join(outdir, "Cargo.lock"))


def expand(cfg: str) -> str:
    outdir = os.path.join(BUILD, "expand", cfg)
    derive_manifest(cfg, outdir)
    env = dict(os.environ, RUSTC_BOOTSTRAP="1", CARGO_NET_OFFLINE="true")
    env.pop("RUSTUP_TOOLCHAIN", None)
    cmd = ["cargo", "rustc", "--offline", "--lib", "--profile", "check",
           "--manifest-path", os.path.join(outdir, "Cargo.toml"),
           "--target-dir", os.path.join(BUILD, "expand", "target-" + cfg)]
    if cfg == "on":
        cmd += ["--features", "tracing"]
    cmd += ["--", "-Zunpretty=expanded"]
    p = subprocess.run(cmd, env=env, capture_output=True, text=True)
    if p.returncode != 0 or "fn " not in p.stdout:
        sys.stderr.write(p.stderr[-4000:])
        sys.stderr.write(f"\nexpand[{cfg}]: rustc expansion failed\n")
        sys.exit(2)
    out = os.path.join(outdir, "expanded.rs")
    with open(out, "w") as f:
        f.write(p.stdout)
    return out


if __name__ == "__main__":
    for cfg in (sys.argv[1:] or ["off", "on"]):
        print(expand(cfg))
