//! Real-thread scenarios against the REAL crate (profile T counterexamples: C18, C19).
//!
//! Two kinds:
//!  * `block`  : a deterministic schedule.  The only places where a test can hold a thread inside an operator
//!               without instrumenting the crate are the user code the operator runs: `Clone` of a datum (run
//!               inside `rcu` closures) and the sink's own handlers.  A datum whose first `clone()` blocks until
//!               released pins one member's thread between two shared accesses of the operator.
//!  * `stress` : barrier-released racing threads, repeated; non-deterministic, used only to look for a
//!               concrete failing run of a violation the verifier already reported.
use callbag::{Message, Source};
use std::panic::{catch_unwind, AssertUnwindSafe};
use std::sync::atomic::{AtomicBool, AtomicUsize, Ordering};
use std::sync::{Arc, Barrier, Condvar, Mutex};

pub struct Report { pub violations: Vec<(String, String)>, pub log: Vec<String>, pub runs: u64 }

/// a datum whose first `clone()` parks the calling thread until `release()`
pub struct Gate { entered: Mutex<bool>, entered_cv: Condvar, open: Mutex<bool>, open_cv: Condvar }
impl Gate {
    fn new() -> Arc<Gate> { Arc::new(Gate { entered: Mutex::new(false), entered_cv: Condvar::new(), open: Mutex::new(false), open_cv: Condvar::new() }) }
    /// false when nobody parked at the gate within the time allowed (the code under test no longer clones the datum there)
    fn wait_entered(&self, ms: u64) -> bool {
        let mut e = self.entered.lock().unwrap();
        let deadline = std::time::Instant::now() + std::time::Duration::from_millis(ms);
        while !*e {
            let now = std::time::Instant::now();
            if now >= deadline { return false; }
            e = self.entered_cv.wait_timeout(e, deadline - now).unwrap().0;
        }
        true
    }
    fn release(&self) { *self.open.lock().unwrap() = true; self.open_cv.notify_all(); }
}
pub struct Val { pub v: u32, gate: Option<Arc<Gate>>, armed: Arc<AtomicBool> }
impl std::fmt::Debug for Val { fn fmt(&self, f: &mut std::fmt::Formatter<'_>) -> std::fmt::Result { write!(f, "{}", self.v) } }
impl Clone for Val {
    fn clone(&self) -> Val {
        if let Some(g) = &self.gate {
            if self.armed.swap(false, Ordering::SeqCst) {
                *g.entered.lock().unwrap() = true; g.entered_cv.notify_all();
                let mut o = g.open.lock().unwrap(); while !*o { o = g.open_cv.wait(o).unwrap(); }
            }
        }
        Val { v: self.v, gate: None, armed: self.armed.clone() }
    }
}

/// a puppet member: remembers the sink it was given; the test drives it from whatever thread it likes
struct Member<T: 'static> { sink: Mutex<Option<Arc<callbag::Sink<T>>>>, terminated: AtomicUsize }
fn member<T: Send + Sync + 'static>() -> (Arc<Member<T>>, Source<T>) {
    let m = Arc::new(Member { sink: Mutex::new(None), terminated: AtomicUsize::new(0) });
    let m2 = m.clone();
    let src: Source<T> = (move |msg: Message<never::Never, T>| {
        if let Message::Handshake(sink) = msg { *m2.sink.lock().unwrap() = Some(sink); }
    }).into();
    (m, src)
}
impl<T: Send + Sync + 'static> Member<T> {
    fn sink(&self) -> Arc<callbag::Sink<T>> { self.sink.lock().unwrap().clone().expect("member was not subscribed") }
    fn greet(self: &Arc<Self>) {
        let me = self.clone();
        let tb: Source<T> = (move |msg: Message<never::Never, T>| {
            if let Message::Terminate | Message::Error(_) = msg { me.terminated.fetch_add(1, Ordering::SeqCst); }
        }).into();
        (self.sink())(Message::Handshake(Arc::new(tb)));
    }
    fn data(&self, v: T) { (self.sink())(Message::Data(v)); }
    fn end(&self) { (self.sink())(Message::Terminate); }
}

/// a recording sink with the C18 / C19 monitors
struct Rec { log: Mutex<Vec<String>>, viol: Mutex<Vec<(String, String)>>, greeted: AtomicUsize, data: AtomicUsize, terms: AtomicUsize, in_data: AtomicUsize }
fn rec() -> Arc<Rec> { Arc::new(Rec { log: Mutex::new(vec![]), viol: Mutex::new(vec![]), greeted: AtomicUsize::new(0), data: AtomicUsize::new(0), terms: AtomicUsize::new(0), in_data: AtomicUsize::new(0) }) }
fn rec_sink<T: std::fmt::Debug + Send + Sync + 'static>(r: &Arc<Rec>, prop: &'static str) -> Arc<callbag::Sink<T>> {
    let r = r.clone();
    Arc::new((move |m: Message<T, never::Never>| match m {
        Message::Handshake(_) => { r.log.lock().unwrap().push("sink <- Handshake".into()); if r.greeted.fetch_add(1, Ordering::SeqCst) >= 1 { r.viol.lock().unwrap().push((prop.into(), "the sink was greeted twice".into())); } }
        Message::Data(v) => {
            r.in_data.fetch_add(1, Ordering::SeqCst);
            r.log.lock().unwrap().push(format!("sink <- Data({:?})", v));
            r.data.fetch_add(1, Ordering::SeqCst);
            std::thread::yield_now();
            r.in_data.fetch_sub(1, Ordering::SeqCst);
        }
        Message::Terminate => {
            r.log.lock().unwrap().push("sink <- Terminate".into());
            if r.in_data.load(Ordering::SeqCst) != 0 { r.viol.lock().unwrap().push((prop.into(), "completion was delivered while a data delivery had not returned".into())); }
            if r.terms.fetch_add(1, Ordering::SeqCst) >= 1 { r.viol.lock().unwrap().push((prop.into(), "the sink was completed twice".into())); }
        }
        Message::Error(e) => { r.log.lock().unwrap().push(format!("sink <- Error({})", e)); if r.terms.fetch_add(1, Ordering::SeqCst) >= 1 { r.viol.lock().unwrap().push((prop.into(), "the sink was terminated twice".into())); } }
        Message::Pull => {}
    }).into())
}
fn finish(r: &Arc<Rec>, runs: u64) -> Report { Report { violations: r.viol.lock().unwrap().clone(), log: r.log.lock().unwrap().clone(), runs } }

/// combine!(a, b): member a's thread is parked inside `data.clone()` (the rcu closure) of its first datum while
/// member b delivers its first datum on another thread.
pub fn combine_block() -> Report {
    let r = rec();
    let (a, sa) = member::<Val>();
    let (b, sb) = member::<u32>();
    let out = callbag::combine!(sa, sb);
    out(Message::Handshake(rec_sink::<(Val, u32)>(&r, "C18")));
    a.greet(); b.greet();
    let gate = Gate::new();
    let va = Val { v: 1, gate: Some(gate.clone()), armed: Arc::new(AtomicBool::new(true)) };
    r.log.lock().unwrap().push("thread A: a -> Data(1)   (parked inside the clone of its datum, i.e. inside vals.rcu)".into());
    let a2 = a.clone();
    let ta = std::thread::spawn(move || catch_unwind(AssertUnwindSafe(|| a2.data(va))).map_err(|e| panic_msg(e)));
    if !gate.wait_entered(3000) {
        // the schedule cannot be set up on this code (member a's delivery never runs the clone of its datum inside
        // combine): nothing is claimed by this scenario, the stress scenario is the one to look at
        gate.release();
        let _ = ta.join();
        r.log.lock().unwrap().push("member a's delivery did not clone its datum: the schedule does not apply".into());
        return finish(&r, 1);
    }
    r.log.lock().unwrap().push("thread B: b -> Data(7)".into());
    let b2 = b.clone();
    let tb = std::thread::spawn(move || catch_unwind(AssertUnwindSafe(|| b2.data(7))).map_err(|e| panic_msg(e)));
    let rb = tb.join().unwrap();
    if let Err(p) = rb { r.log.lock().unwrap().push(format!("thread B panicked: {}", p)); r.viol.lock().unwrap().push(("C18".into(), format!("combine panicked in member b's delivery while member a's first value was counted but not stored yet: {}", p))); }
    r.log.lock().unwrap().push("thread A released".into());
    gate.release();
    if let Err(p) = ta.join().unwrap() { r.viol.lock().unwrap().push(("C18".into(), format!("combine panicked in member a's delivery: {}", p))); }
    if r.viol.lock().unwrap().is_empty() {
        let n = r.data.load(Ordering::SeqCst);
        if n != 1 { r.viol.lock().unwrap().push(("C18".into(), format!("expected exactly one complete tuple once both members had a value, the sink got {}", n))); }
    }
    finish(&r, 1)
}
fn panic_msg(e: Box<dyn std::any::Any + Send>) -> String {
    e.downcast_ref::<&str>().map(|s| s.to_string()).or_else(|| e.downcast_ref::<String>().cloned()).unwrap_or_else(|| "<panic>".into())
}

fn race(threads: Vec<Box<dyn FnOnce() + Send>>) -> Vec<String> {
    let n = threads.len();
    let bar = Arc::new(Barrier::new(n));
    let hs: Vec<_> = threads.into_iter().map(|f| { let bar = bar.clone(); std::thread::spawn(move || { bar.wait(); catch_unwind(AssertUnwindSafe(f)).map_err(panic_msg) }) }).collect();
    hs.into_iter().filter_map(|h| h.join().unwrap().err()).collect()
}

/// racing deliveries; `what`: take1 | take2 | merge2 | merge3 | combine2
pub fn stress(what: &str, runs: u64) -> Report {
    for run in 1..=runs {
        let r = rec();
        let mut panics = vec![];
        match what {
            "take1" | "take2" => {
                let n = if what == "take1" { 1 } else { 2 };
                let (a, sa) = member::<u32>();
                let out = callbag::take(n)(sa);
                out(Message::Handshake(rec_sink::<u32>(&r, "C19")));
                a.greet();
                let ts: Vec<Box<dyn FnOnce() + Send>> = (0..3u32).map(|k| { let a = a.clone(); Box::new(move || a.data(k)) as Box<dyn FnOnce() + Send> }).collect();
                panics = race(ts);
                let d = r.data.load(Ordering::SeqCst);
                if d > n { r.viol.lock().unwrap().push(("C19".into(), format!("take({}) delivered {} data", n, d))); }
                let t = a.terminated.load(Ordering::SeqCst);
                if t > 1 { r.viol.lock().unwrap().push(("C19".into(), format!("take({}) terminated its upstream {} times", n, t))); }
            }
            "merge2" | "merge3" => {
                let n = if what == "merge2" { 2 } else { 3 };
                let mut ms = vec![]; let mut srcs = vec![];
                for _ in 0..n { let (m, s) = member::<u32>(); ms.push(m); srcs.push(s); }
                let out = callbag::merge(srcs.into_boxed_slice());
                out(Message::Handshake(rec_sink::<u32>(&r, "C18")));
                let ts: Vec<Box<dyn FnOnce() + Send>> = ms.iter().enumerate().map(|(k, m)| { let m = m.clone(); Box::new(move || { m.greet(); m.data(k as u32); m.data(10 + k as u32); m.end(); }) as Box<dyn FnOnce() + Send> }).collect();
                panics = race(ts);
                let (g, d, t) = (r.greeted.load(Ordering::SeqCst), r.data.load(Ordering::SeqCst), r.terms.load(Ordering::SeqCst));
                if g != 1 { r.viol.lock().unwrap().push(("C18".into(), format!("the sink was greeted {} times", g))); }
                if d != 2 * n { r.viol.lock().unwrap().push(("C18".into(), format!("{} data were sent, the sink got {}", 2 * n, d))); }
                if t != 1 { r.viol.lock().unwrap().push(("C18".into(), format!("the sink was completed {} times", t))); }
            }
            "combine2" => {
                let (a, sa) = member::<u32>();
                let (b, sb) = member::<u32>();
                let out = callbag::combine!(sa, sb);
                out(Message::Handshake(rec_sink::<(u32, u32)>(&r, "C18")));
                let ts: Vec<Box<dyn FnOnce() + Send>> = vec![
                    Box::new({ let a = a.clone(); move || { a.greet(); a.data(1); a.data(2); a.end(); } }),
                    Box::new({ let b = b.clone(); move || { b.greet(); b.data(7); b.data(8); b.end(); } }),
                ];
                panics = race(ts);
                let (g, t) = (r.greeted.load(Ordering::SeqCst), r.terms.load(Ordering::SeqCst));
                if panics.is_empty() && g != 1 { r.viol.lock().unwrap().push(("C18".into(), format!("the sink was greeted {} times", g))); }
                if panics.is_empty() && t != 1 { r.viol.lock().unwrap().push(("C18".into(), format!("the sink was completed {} times", t))); }
            }
            _ => panic!("unknown stress scenario {}", what),
        }
        let prop = if what.starts_with("take") { "C19" } else { "C18" };
        for p in panics { r.viol.lock().unwrap().push((prop.into(), format!("a delivery panicked: {}", p))); }
        if !r.viol.lock().unwrap().is_empty() { return finish(&r, run); }
    }
    Report { violations: vec![], log: vec![], runs }
}
