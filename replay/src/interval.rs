//! Scenario `interval`: the real `callbag::interval` over a puppet nursery / timer.  A subscription's task is kept
//! in the world it belongs to and is polled by hand; "a period elapses" is a tape decision (the pending sleep of
//! the task completes and the task is polled once).  Whether the nursery accepts the task is a tape decision too.
use super::*;
use async_executors::Timer;
use async_nursery::{Nurse, NurseErr};
use futures_task::FutureObj;
use std::future::Future;
use std::pin::Pin;
use std::sync::atomic::{AtomicBool, Ordering};
use std::task::{Context, Poll, RawWaker, RawWakerVTable, Waker};

pub struct Task { pub fut: Option<FutureObj<'static, ()>>, pub sleep: Option<Arc<AtomicBool>>, pub done: bool }

#[derive(Clone)]
pub struct PuppetNursery { pub sel: Sel }

impl std::fmt::Debug for PuppetNursery { fn fmt(&self, f: &mut std::fmt::Formatter<'_>) -> std::fmt::Result { write!(f, "PuppetNursery") } }
struct SleepFut { flag: Arc<AtomicBool> }
impl Future for SleepFut {
    type Output = ();
    fn poll(self: Pin<&mut Self>, _: &mut Context<'_>) -> Poll<()> { if self.flag.load(Ordering::SeqCst) { Poll::Ready(()) } else { Poll::Pending } }
}
impl Timer for PuppetNursery {
    fn sleep(&self, _dur: std::time::Duration) -> Pin<Box<dyn Future<Output = ()> + Send + 'static>> {
        // the sleep belongs to the task that is being polled
        let w = (self.sel)();
        let flag = Arc::new(AtomicBool::new(false));
        { let mut g = w.lock().unwrap(); if let Some(t) = g.cur_task { g.tasks[t].sleep = Some(flag.clone()); } }
        Box::pin(SleepFut { flag })
    }
}
impl Nurse<()> for PuppetNursery {
    fn nurse_obj(&self, fut: FutureObj<'static, ()>) -> Result<(), NurseErr> {
        let w = (self.sel)();
        match choose(&w, 3) {
            1 => { log(&w, "nursery refuses the task (closed)".into()); w.lock().unwrap().refused = true; Err(NurseErr::Closed) }
            2 => { log(&w, "nursery refuses the task (spawn failed)".into()); w.lock().unwrap().refused = true; Err(NurseErr::Spawn) }
            _ => { log(&w, "nursery accepts the task".into()); w.lock().unwrap().tasks.push(Task { fut: Some(fut), sleep: None, done: false }); Ok(()) }
        }
    }
}
fn noop_waker() -> Waker {
    fn clone(_: *const ()) -> RawWaker { RawWaker::new(std::ptr::null(), &VT) }
    fn noop(_: *const ()) {}
    static VT: RawWakerVTable = RawWakerVTable::new(clone, noop, noop, noop);
    unsafe { Waker::from_raw(RawWaker::new(std::ptr::null(), &VT)) }
}
fn poll_task(w: &W, t: usize) {
    let fut = { let mut g = w.lock().unwrap(); g.cur_task = Some(t); g.tasks[t].fut.take() };
    if let Some(mut fut) = fut {
        let waker = noop_waker();
        let mut cx = Context::from_waker(&waker);
        let r = Pin::new(&mut fut).poll(&mut cx);
        let mut g = w.lock().unwrap();
        g.cur_task = None;
        match r { Poll::Ready(()) => { g.tasks[t].done = true; } Poll::Pending => { g.tasks[t].fut = Some(fut); } }
    } else { w.lock().unwrap().cur_task = None; }
}
/// one period elapses for task t
pub fn tick(w: &W, t: usize) -> bool {
    { let g = w.lock().unwrap(); if t >= g.tasks.len() || g.tasks[t].done { return false; } }
    // a task that has never run reaches its first sleep first
    if w.lock().unwrap().tasks[t].sleep.is_none() { poll_task(w, t); }
    let flag = w.lock().unwrap().tasks[t].sleep.take();
    log(w, "a period elapses".into());
    { let mut g = w.lock().unwrap(); g.ticks += 1; if g.sinks.first().map(|s| s.st == SinkSt::Live).unwrap_or(false) { g.live_ticks += 1; } }
    if let Some(f) = flag { f.store(true, Ordering::SeqCst); }
    poll_task(w, t);
    true
}
/// C16 at quiescence
pub fn checks(w: &W) {
    let g = w.lock().unwrap();
    if g.sinks.is_empty() { return; }
    let s = &g.sinks[0];
    let mut v = vec![];
    let want: Vec<u32> = (0..s.data.len() as u32).map(|x| x + g.val_base * 0).collect();
    if s.data != want { v.push(("C16", format!("the subscription received {:?}, not 0, 1, 2, ..", s.data))); }
    if g.refused {
        if !(s.st == SinkSt::Ended && s.err.is_some() && s.data.is_empty() && s.tb.is_none()) { v.push(("C16", format!("the task could not be spawned: the sink must receive exactly one Error and nothing else (state {:?}, error {:?}, data {:?}, greeted {})", s.st, s.err, s.data, s.tb.is_some()))); }
    } else {
        if s.st == SinkSt::Live && s.data.len() as u32 != g.live_ticks { v.push(("C16", format!("{} periods have elapsed since the subscription, {} numbers were received", g.live_ticks, s.data.len()))); }
        if s.data.len() as u32 > g.ticks { v.push(("C16", format!("{} numbers in {} periods", s.data.len(), g.ticks))); }
    }
    drop(g);
    for (p, what) in v { violate(w, p, what); }
}
