//! Tape-driven replay of the REAL callbag crate against the most general conformant peers
//! (the executable twin of the verified environment, DESIGN 4.2).  Every decision of a puppet peer
//! ("nothing / pull / dispose / error" for a sink, "nothing / data / end / error" for a source) is read
//! from a tape; only protocol-admissible actions are ever chosen.  Monitors are the executable twins of
//! the call-site clauses.  `search` enumerates tapes exhaustively up to a length; it never decides a
//! property, it only supplies a concrete failing history for a violation the verifier reported.
mod threads;
mod interval;
use callbag::{Message, Source};
use std::panic::{catch_unwind, AssertUnwindSafe};
use std::sync::{Arc, Mutex};

type Sink = Arc<callbag::Sink<u32>>;
type Tb = Arc<Source<u32>>;

#[derive(Clone, Copy, PartialEq, Debug)]
enum SrcSt { Idle, Pending, Live, Ended, Errored, Terminated }
#[derive(Clone, Copy, PartialEq, Debug)]
enum SinkSt { NotGreeted, Live, Ended, Disposed }

/// the decision tape (shared by the two worlds of an overlapping-subscription scenario)
#[derive(Default)]
struct TapeSt {
    tape: Vec<u8>,
    pos: usize,
    exhausted_opts: Option<usize>, // number of options at the first choice past the end of the tape
    quiet: bool, // set-up phase of a scenario with suffix Q: every decision is "nothing" and costs no tape
}
type Hook = Arc<dyn Fn() + Send + Sync>;
#[derive(Default)]
struct World {
    ts: Arc<Mutex<TapeSt>>,
    rec: Vec<u8>, // every decision taken by the peers of this world, in order: the tape that replays this world alone
    val_base: u32,
    nested_sub: Option<Hook>, // scenario suffix O: the second subscription may be started from inside a handler of the first
    attach_hook: Option<Hook>, // scenario suffix A (share): a further sink may attach from inside a handler
    log: Vec<String>,
    violations: Vec<(String, String)>, // (property, what)
    srcs: Vec<SrcState>,
    sinks: Vec<SinkState>,
    next_val: u32,
    emitted: Vec<(usize, u32, bool)>, // (source, value, the (first) sink was live when it was emitted)
    pull_mode: bool, // profile P: sources answer only against an outstanding Pull; the sink pulls only with none outstanding
    sub_order: Vec<(usize, bool)>, // (source, was every earlier source ended when it was subscribed?)
    late: bool, // sources may defer their greeting (profile L)
    op_prop: Option<&'static str>, // the operator-specific property that also covers Pull routing
    resub: bool, // the second subscription of the same source value is running (scenario suffix R)
    cross: bool, // another member may act from inside a member's handler (members coupled behind the scenes)
    ending: bool, // a source is inside the call that delivers its Terminate / Error
    tasks: Vec<interval::Task>, // scenario interval: the tasks the puppet nursery accepted (one per subscription)
    cur_task: Option<usize>, refused: bool, ticks: u32, live_ticks: u32,
}
struct SrcState { st: SrcSt, sink: Option<Sink>, subs: u32, err: Option<String>, name: String, emitted: u32, pulls: u32, answers: u32, greet_pulls: Option<u32> }
struct SinkState { st: SinkSt, tb: Option<Tb>, data: Vec<u32>, err: Option<String>, name: String, pulls: u32, attach_at: usize, during_end: bool }
type W = Arc<Mutex<World>>;
/// texts of listed findings (--exclude); finding F13 is excluded by its class of histories (see the attach hook)
static STOP_ON: Mutex<Vec<String>> = Mutex::new(Vec::new());

fn choose_meta(ts: &Arc<Mutex<TapeSt>>, n: usize) -> usize {
    let mut g = ts.lock().unwrap();
    if g.quiet { return 0; }
    if g.pos < g.tape.len() {
        let c = g.tape[g.pos] as usize % n;
        g.pos += 1;
        c
    } else {
        if g.exhausted_opts.is_none() { g.exhausted_opts = Some(n); }
        0
    }
}
fn choose(w: &W, n: usize) -> usize {
    let ts = w.lock().unwrap().ts.clone();
    let c = choose_meta(&ts, n);
    w.lock().unwrap().rec.push(c as u8);
    c
}
fn log(w: &W, s: String) { w.lock().unwrap().log.push(s); }
fn violate(w: &W, p: &str, what: String) {
    let mut g = w.lock().unwrap();
    g.log.push(format!("!! {} {}", p, what));
    g.violations.push((p.to_string(), what));
}
fn kind<I, O>(m: &Message<I, O>) -> &'static str {
    match m { Message::Handshake(_) => "Handshake", Message::Data(_) => "Data", Message::Pull => "Pull", Message::Error(_) => "Error", Message::Terminate => "Terminate" }
}
#[derive(Debug)] struct PuppetErr(String);
impl std::fmt::Display for PuppetErr { fn fmt(&self, f: &mut std::fmt::Formatter<'_>) -> std::fmt::Result { write!(f, "{}", self.0) } }
impl std::error::Error for PuppetErr {}

// ------------------------------------------------------------------ puppet source
fn new_source(w: &W, name: &str) -> usize {
    let mut g = w.lock().unwrap();
    g.srcs.push(SrcState { st: SrcSt::Idle, sink: None, subs: 0, err: None, name: name.to_string(), emitted: 0, pulls: 0, answers: 0, greet_pulls: None });
    g.srcs.len() - 1
}
/// one admissible event of source j (0 = nothing); returns false when it did nothing
fn src_event(w: &W, j: usize, allow_nothing: bool) -> bool {
    let (st, sink) = { let g = w.lock().unwrap(); (g.srcs[j].st, g.srcs[j].sink.clone()) };
    if st != SrcSt::Live { return false; }
    { let g = w.lock().unwrap(); if g.pull_mode && g.srcs[j].answers >= g.srcs[j].pulls { return false; } }
    let sink = sink.unwrap();
    let base = if allow_nothing { 0 } else { 1 };
    let c = choose(w, 4 - base) + base;
    if c != 0 { w.lock().unwrap().srcs[j].answers += 1; }
    match c {
        0 => false,
        1 => {
            let v = { let mut g = w.lock().unwrap(); g.next_val += 1; g.srcs[j].emitted += 1; let v = g.next_val + g.val_base; let live = g.sinks.first().map(|s| s.st == SinkSt::Live).unwrap_or(false); g.emitted.push((j, v, live)); v };
            log(w, format!("{} -> Data({})", w.lock().unwrap().srcs[j].name.clone(), v));
            sink(Message::Data(v));
            true
        }
        2 => {
            { let mut g = w.lock().unwrap(); g.srcs[j].st = SrcSt::Ended; }
            log(w, format!("{} -> Terminate", w.lock().unwrap().srcs[j].name.clone()));
            w.lock().unwrap().ending = true;
            sink(Message::Terminate);
            w.lock().unwrap().ending = false;
            true
        }
        _ => {
            let e = format!("err-{}", w.lock().unwrap().srcs[j].name.clone());
            { let mut g = w.lock().unwrap(); g.srcs[j].st = SrcSt::Errored; g.srcs[j].err = Some(e.clone()); }
            log(w, format!("{} -> Error({})", w.lock().unwrap().srcs[j].name.clone(), e));
            w.lock().unwrap().ending = true;
            sink(Message::Error(Arc::new(PuppetErr(e))));
            w.lock().unwrap().ending = false;
            true
        }
    }
}
fn src_burst(w: &W, j: usize) {
    loop {
        let (cross, n) = { let g = w.lock().unwrap(); (g.cross, g.srcs.len()) };
        if cross && n > 1 {
            // pick who acts: 0 = nobody, k+1 = source k
            let c = choose(w, n + 1);
            if c == 0 { break; }
            if !src_event(w, c - 1, false) { break; }
        } else if !src_event(w, j, true) { break; }
    }
}
fn src_greet(w: &W, j: usize) {
    let (sink, my_sub) = { let mut g = w.lock().unwrap(); g.srcs[j].st = SrcSt::Live; (g.srcs[j].sink.clone().unwrap(), g.srcs[j].subs) };
    let tb: Tb = Arc::new({
        let w = w.clone();
        move |m: Message<never::Never, u32>| {
            // (this talkback belongs to one subscription of the puppet; a later subscription has its own)
            let stale = { let g = w.lock().unwrap(); g.srcs[j].subs != my_sub };
            if stale {
                let name = w.lock().unwrap().srcs[j].name.clone();
                log(&w, format!("{} (earlier subscription) <- {}", name, kind(&m)));
                violate(&w, "C04", format!("{} sent on the talkback of an earlier subscription of {}, which is over", kind(&m), name));
                return;
            }
            let (st, name, out) = { let g = w.lock().unwrap(); let out = if g.sinks.len() == 1 { if g.sinks[0].st == SinkSt::Live || g.sinks[0].st == SinkSt::NotGreeted { " [output live]" } else { " [output over]" } } else { "" }; (g.srcs[j].st, g.srcs[j].name.clone(), out) };
            log(&w, format!("{} <- {}", name, kind(&m)));
            match m {
                Message::Pull => match st {
                    SrcSt::Live => { w.lock().unwrap().srcs[j].pulls += 1; src_burst(&w, j) }
                    SrcSt::Ended | SrcSt::Errored => {
                        violate(&w, "C04", format!("Pull sent to {} after it ended by itself{}", name, out));
                        let op_prop = w.lock().unwrap().op_prop;
                        if let (Some(p), " [output live]") = (op_prop, out) { violate(&w, p, format!("Pull sent to {} after it ended by itself{}", name, out)); }
                    }
                    SrcSt::Terminated => {
                        violate(&w, "C04", format!("Pull sent to {} after it was terminated{}", name, out));
                        // while the output is live this is also a routing error of the operator itself
                        let op_prop = w.lock().unwrap().op_prop;
                        if let (Some(p), " [output live]") = (op_prop, out) { violate(&w, p, format!("Pull sent to {} after it was terminated{}", name, out)); }
                    }
                    _ => violate(&w, "C04", format!("Pull sent to {} before it greeted", name)),
                },
                Message::Terminate | Message::Error(_) => match st {
                    SrcSt::Live => { w.lock().unwrap().srcs[j].st = SrcSt::Terminated; }
                    SrcSt::Ended | SrcSt::Errored => violate(&w, "C04", format!("{} terminated after it ended by itself", name)),
                    SrcSt::Terminated => {
                        violate(&w, "C04", format!("{} terminated twice", name));
                        // flatten: "the previous one is disposed exactly once"
                        if w.lock().unwrap().op_prop == Some("C11") { violate(&w, "C11", format!("{} terminated twice", name)); }
                    }
                    _ => violate(&w, "C04", format!("{} terminated before it greeted", name)),
                },
                _ => violate(&w, "C04", format!("{} received {} on its talkback", name, kind(&m))),
            }
        }
    }.into());
    log(w, format!("{} -> Handshake", w.lock().unwrap().srcs[j].name.clone()));
    let p0 = w.lock().unwrap().srcs[j].pulls;
    sink(Message::Handshake(tb));
    { let mut g = w.lock().unwrap(); let d = g.srcs[j].pulls - p0; g.srcs[j].greet_pulls = Some(d); }
    src_burst(w, j);
}
fn puppet_source(w: &W, j: usize) -> Source<u32> {
    let w = w.clone();
    (move |m: Message<never::Never, u32>| {
        let name = w.lock().unwrap().srcs[j].name.clone();
        match m {
            Message::Handshake(sink) => {
                let prev_alive = { let g = w.lock().unwrap(); g.srcs[j].st == SrcSt::Live || g.srcs[j].st == SrcSt::Pending };
                let (subs, late) = { let mut g = w.lock().unwrap(); g.srcs[j].subs += 1; g.srcs[j].sink = Some(sink); g.srcs[j].st = SrcSt::Pending; (g.srcs[j].subs, g.late) };
                { let mut g = w.lock().unwrap(); let ok = g.srcs[..j].iter().all(|x| x.st == SrcSt::Ended); g.sub_order.push((j, ok)); }
                log(&w, format!("{} <- subscribe", name));
                if subs > 1 && prev_alive { violate(&w, "C04", format!("{} subscribed again while its previous subscription was still alive", name)); }
                if late && choose(&w, 2) == 1 { log(&w, format!("{} defers its greeting", name)); return; }
                src_greet(&w, j);
            }
            other => violate(&w, "C04", format!("{} (not yet greeted) received {}", name, kind(&other))),
        }
    }).into()
}

// ------------------------------------------------------------------ puppet sink
fn new_sink(w: &W, name: &str) -> usize {
    let mut g = w.lock().unwrap();
    let at = g.emitted.len();
    // (share) the sink attaches while the end of the upstream subscription is still being handed round
    let during_end = g.ending;
    g.sinks.push(SinkState { st: SinkSt::NotGreeted, tb: None, data: vec![], err: None, name: name.to_string(), pulls: 0, attach_at: at, during_end });
    g.sinks.len() - 1
}
fn sink_action(w: &W, k: usize, allow_nothing: bool) -> bool {
    let (st, tb) = { let g = w.lock().unwrap(); (g.sinks[k].st, g.sinks[k].tb.clone()) };
    if st != SinkSt::Live { return false; }
    let tb = tb.unwrap();
    let base = if allow_nothing { 0 } else { 1 };
    let c = choose(w, 4 - base) + base;
    let name = w.lock().unwrap().sinks[k].name.clone();
    match c {
        0 => false,
        1 => {
            { let mut g = w.lock().unwrap(); if g.pull_mode && g.sinks[k].pulls as usize > g.sinks[k].data.len() { return false; } g.sinks[k].pulls += 1; }
            log(w, format!("{} -> Pull", name));
            let before: Vec<(SrcSt, u32)> = w.lock().unwrap().srcs.iter().map(|x| (x.st, x.pulls)).collect();
            tb(Message::Pull);
            // fan-in operators: the Pull reaches every member that was and still is running
            let g = w.lock().unwrap();
            let mut v = vec![];
            if let Some(p) = g.op_prop { if p == "C08" || p == "C10" {
                for (j, (st, n)) in before.iter().enumerate() {
                    if *st == SrcSt::Live && g.srcs[j].st == SrcSt::Live && g.srcs[j].pulls == *n && g.sinks[k].st == SinkSt::Live {
                        v.push((p, format!("the sink's Pull did not reach {}, which is running", g.srcs[j].name)));
                    }
                }
            } }
            drop(g);
            for (p, what) in v { violate(w, p, what); }
            true }
        2 => { w.lock().unwrap().sinks[k].st = SinkSt::Disposed; log(w, format!("{} -> Terminate", name)); tb(Message::Terminate); true }
        _ => { w.lock().unwrap().sinks[k].st = SinkSt::Disposed; log(w, format!("{} -> Error", name)); tb(Message::Error(Arc::new(PuppetErr(format!("err-{}", name))))); true }
    }
}
fn sink_react(w: &W, k: usize) {
    while sink_action(w, k, true) {}
    cross_sink(w, k);
    // scenario suffix O: the second subscription of the same source value may start from inside this handler
    let (hook, ts) = { let g = w.lock().unwrap(); (g.nested_sub.clone(), g.ts.clone()) };
    if let Some(h) = hook { if choose_meta(&ts, 2) == 1 { w.lock().unwrap().nested_sub = None; h(); } }
}
/// scenario suffix X with several sinks (share): the consumers may be coupled behind the scenes, so ANOTHER
/// sink may act (pull / leave) while this one is being delivered to (also while it is being told the end)
/// suffix A: .. and a further sink may attach from inside the handler, several such actions in a row
fn cross_sink(w: &W, k: usize) {
    loop {
        let (cross, n, hook) = { let g = w.lock().unwrap(); (g.cross, g.sinks.len(), g.attach_hook.clone()) };
        if !(cross && (n > 1 || hook.is_some())) { break; }
        let c = choose(w, n + 1 + hook.is_some() as usize);
        if c == 0 { break; }
        if c == n + 1 { hook.clone().unwrap()(); }
        else if c - 1 != k { sink_action(w, c - 1, true); }
        if hook.is_none() { break; }
    }
}
fn puppet_sink(w: &W, k: usize) -> Sink {
    let w = w.clone();
    Arc::new((move |m: Message<u32, never::Never>| {
        let (st, name) = { let g = w.lock().unwrap(); (g.sinks[k].st, g.sinks[k].name.clone()) };
        let desc = match &m { Message::Data(v) => format!("Data({})", v), Message::Error(e) => format!("Error({})", e), o => kind(o).to_string() };
        log(&w, format!("{} <- {}", name, desc));
        match (&m, st) {
            (Message::Handshake(_), SinkSt::NotGreeted) => {}
            (Message::Handshake(_), _) => violate(&w, "C01", format!("{} greeted twice", name)),
            // (C01 / C16: the single Error with which interval refuses a subscription whose task cannot be spawned)
            (Message::Error(_), SinkSt::NotGreeted) if w.lock().unwrap().refused => {}
            (_, SinkSt::NotGreeted) => violate(&w, "C01", format!("{} received {} before its handshake", name, desc)),
            (_, SinkSt::Ended) => violate(&w, "C02", format!("{} received {} after its terminating message", name, desc)),
            (_, SinkSt::Disposed) => violate(&w, "C03", format!("{} received {} after it disposed", name, desc)),
            _ => {}
        }
        match m {
            Message::Handshake(tb) => { { let mut g = w.lock().unwrap(); if g.sinks[k].st == SinkSt::NotGreeted { g.sinks[k].st = SinkSt::Live; g.sinks[k].tb = Some(tb); } } sink_react(&w, k); }
            Message::Data(v) => { w.lock().unwrap().sinks[k].data.push(v); sink_react(&w, k); }
            Message::Pull => violate(&w, "C04", format!("{} was pulled by its source", name)),
            Message::Terminate => { { let mut g = w.lock().unwrap(); if g.sinks[k].st == SinkSt::Live { g.sinks[k].st = SinkSt::Ended; } } cross_sink(&w, k); }
            Message::Error(e) => { { let mut g = w.lock().unwrap(); if g.sinks[k].st == SinkSt::Live || (g.refused && g.sinks[k].st == SinkSt::NotGreeted) { g.sinks[k].st = SinkSt::Ended; g.sinks[k].err = Some(e.to_string()); } } cross_sink(&w, k); }
        }
    }).into())
}

// ------------------------------------------------------------------ quiescence checks
fn quiescent_checks(w: &W, single_sink: bool) {
    let g = w.lock().unwrap();
    let mut v = vec![];
    if single_sink && !g.sinks.is_empty() {
        let s = &g.sinks[0];
        if s.st == SinkSt::Ended || s.st == SinkSt::Disposed {
            for src in &g.srcs {
                if src.st == SrcSt::Live { v.push(("C04", format!("{} is still live although the output is over", src.name))); }
            }
        }
        for src in &g.srcs {
            if src.st == SrcSt::Errored {
                if s.st == SinkSt::Live || s.st == SinkSt::NotGreeted { v.push(("C05", format!("{} failed but the sink was not told", src.name))); }
                else if s.st == SinkSt::Ended && s.err.as_deref() != src.err.as_deref() && g.srcs.iter().filter(|x| x.st == SrcSt::Errored).count() == 1 {
                    v.push(("C05", format!("{} failed with {:?} but the sink ended with {:?}", src.name, src.err, s.err)));
                }
            }
        }
    }
    // C05: when a member failed, the members still subscribed are disposed
    if single_sink && g.srcs.iter().any(|x| x.st == SrcSt::Errored) && g.srcs.iter().any(|x| x.st == SrcSt::Live) && !g.sinks.is_empty() && g.sinks[0].st != SinkSt::Live {
        for src in &g.srcs { if src.st == SrcSt::Live { v.push(("C05", format!("{} is still live although a sibling failed and the output is over", src.name))); } }
    }
    drop(g);
    for (p, what) in v { violate(w, p, what); }
}

/// the list function an operator scenario should compute (C07..C11), checked at quiescence:
/// what the sink has received must be a prefix of it, and equal to it while the sink is still live
fn functional_checks(w: &W, op: &str) {
    if op.starts_with("interval") { interval::checks(w); return; }
    let g = w.lock().unwrap();
    if g.sinks.is_empty() { return; }
    let sink = &g.sinks[0];
    let ins: Vec<(usize, u32)> = g.emitted.iter().filter(|e| e.2).map(|e| (e.0, e.1)).collect();
    let vals: Vec<u32> = ins.iter().map(|e| e.1).collect();
    let base = op.trim_end_matches(|c| SFX.contains(&c));
    let (prop, expected): (&str, Option<Vec<u32>>) = match base {
        "map" => ("C07", Some(vals.iter().map(|x| x + 100).collect())),
        "filter" => ("C07", Some(vals.iter().cloned().filter(|x| x % 2 == 0).collect())),
        "scan" => ("C07", Some(vals.iter().scan(0u32, |a, x| { *a += x; Some(*a) }).collect())),
        "take0" => ("C07", Some(vec![])),
        "take1" => ("C07", Some(vals.iter().cloned().take(1).collect())),
        "take2" => ("C07", Some(vals.iter().cloned().take(2).collect())),
        "skip1" => ("C07", Some(vals.iter().cloned().skip(1).collect())),
        "merge2" | "merge3" => ("C08", Some(vals.clone())),
        "concat2" | "concat3" => ("C09", Some(vals.clone())),
        "flatten" => ("C11", Some(ins.iter().filter(|e| e.0 != 0).map(|e| e.1).collect())),
        "combine2" => {
            // a value counts as a member's latest even when it was emitted before the sink was greeted
            let (mut a, mut b, mut out) = (None, None, vec![]);
            for (j, v, live) in g.emitted.iter() { if *j == 0 { a = Some(*v) } else { b = Some(*v) } if let (Some(x), Some(y), true) = (a, b, *live) { out.push(x * 1000 + y); } }
            ("C10", Some(out))
        }
        _ => ("", None),
    };
    let mut v = vec![];
    if let Some(exp) = expected {
        let got = &sink.data;
        let is_prefix = got.len() <= exp.len() && got[..] == exp[..got.len()];
        if !is_prefix {
            v.push((prop, format!("the sink received {:?}, which is not a prefix of the expected {:?}", got, exp)));
            // in pull mode this is also the pipeline property: the puller sees another list than the list function gives
            if g.pull_mode { v.push(("C06", format!("the puller received {:?}, which is not a prefix of the expected {:?}", got, exp))); }
            // .. and, in a second subscription of the same source value, a dependence on the first one
            if g.resub { v.push(("C13", format!("the second subscription received {:?}; subscribed alone it receives a prefix of {:?}", got, exp))); }
        }
        else if sink.st == SinkSt::Live && got.len() != exp.len() && !g.pull_mode { v.push((prop, format!("the sink has received {:?} but {:?} is due", got, exp))); }
    }
    // C09: member k+1 is subscribed only after member k completed
    if base.starts_with("concat") {
        for (j, ok) in &g.sub_order { if !ok { v.push(("C09", format!("{} was subscribed before the previous member completed", g.srcs[*j].name))); } }
    }
    // C11: an inner is pulled exactly once on greeting
    if base == "flatten" {
        for src in g.srcs.iter().skip(1) { if let Some(d) = src.greet_pulls { if d == 0 && src.st == SrcSt::Live && sink.st == SinkSt::Live { v.push(("C11", format!("{} was not pulled on greeting", src.name))); } } }
    }
    // C14 / C15 (pull mode): never more data than Pulls; with every source's answers given, none of the sink's Pulls is outstanding
    if g.pull_mode {
        if sink.data.len() > sink.pulls as usize { v.push(("C14", format!("the sink received {} data for {} Pulls", sink.data.len(), sink.pulls))); }
        let all_answered = g.srcs.iter().all(|x| x.st != SrcSt::Live || x.answers >= x.pulls) && !g.srcs.iter().any(|x| x.st == SrcSt::Pending);
        if sink.st == SinkSt::Live && all_answered && (sink.pulls as usize) > sink.data.len() && !g.srcs.is_empty() && g.srcs.iter().any(|x| x.st == SrcSt::Live || x.st == SrcSt::Idle) {
            v.push(("C14", format!("a Pull of the sink is unanswered: {} Pulls, {} data, no upstream owes an answer", sink.pulls, sink.data.len())));
        }
    }
    if base == "from_iter" {
        let exp = [1u32, 2, 3];
        if sink.data.len() > 3 || sink.data[..] != exp[..sink.data.len()] { v.push(("C15", format!("from_iter delivered {:?}", sink.data))); }
        if sink.data.len() > sink.pulls as usize { v.push(("C15", format!("from_iter delivered {} items for {} Pulls", sink.data.len(), sink.pulls))); v.push(("C14", format!("from_iter delivered {} items for {} Pulls", sink.data.len(), sink.pulls))); }
    }
    drop(g);
    for (p, what) in v { violate(w, p, what); }
}

/// C12 at quiescence: the upstream subscription is alive exactly while some sink is attached
fn share_checks(w: &W) {
    let g = w.lock().unwrap();
    // (a sink that has subscribed and waits for the upstream's greeting counts as attached)
    let attached = g.sinks.iter().filter(|s| s.st == SinkSt::Live || s.st == SinkSt::NotGreeted).count();
    let up_alive = g.srcs[0].st == SrcSt::Live || g.srcs[0].st == SrcSt::Pending;
    let mut v = vec![];
    // (a violation that concerns only sinks which attached during the hand-round of an end is worded apart: finding F13)
    let late = |s: &SinkState| if s.during_end { " (it attached while the end of the upstream was being handed round)" } else { "" };
    if attached == 0 && up_alive { v.push(("C12", "the upstream subscription is still alive although every sink has detached".to_string())); }
    if attached > 0 && !up_alive {
        if g.sinks.iter().filter(|s| s.st == SinkSt::Live).all(|s| s.during_end) { v.push(("C12", "a sink that attached while the end of the upstream was being handed round is attached but no upstream subscription is alive".to_string())); }
        else { v.push(("C12", "a sink is attached but no upstream subscription is alive".to_string())); }
    }
    // C05: with share, every attached sink receives the upstream failure
    // (a sink that attached once the failure had been emitted is the business of C12, not of C05)
    if g.srcs[0].st == SrcSt::Errored { for s in g.sinks.iter().filter(|s| s.st == SinkSt::Live && !s.during_end) { v.push(("C05", format!("the upstream failed but {} was not told", s.name))); } }
    // every attached sink has every datum emitted since it attached (nested fan-out, finding F4, reorders them: compare as sets there)
    for s in g.sinks.iter().filter(|s| s.st == SinkSt::Live) {
        let exp: Vec<u32> = g.emitted[s.attach_at.min(g.emitted.len())..].iter().map(|e| e.1).collect();
        let mut a = s.data.clone(); a.sort(); let mut b = exp.clone(); b.sort();
        if a != b { v.push(("C12", format!("{} is attached and has received {:?} of the data {:?} emitted since it attached{}", s.name, s.data, exp, late(s)))); }
    }
    drop(g);
    for (p, what) in v { violate(w, p, what); }
}

// ------------------------------------------------------------------ scenarios
const SFX: [char; 7] = ['L', 'X', 'P', 'R', 'O', 'A', 'Q'];
/// which world a new subscription of a puppet source belongs to (one world unless subscriptions overlap)
type Sel = Arc<dyn Fn() -> W + Send + Sync>;
fn puppet_source_sel(sel: &Sel, j: usize) -> Source<u32> {
    // the same source VALUE serves every subscription; each subscription is played by the puppet of its own world
    let sel = sel.clone();
    (move |m: Message<never::Never, u32>| { let w = sel(); puppet_source(&w, j)(m) }).into()
}
fn build(op: &str, sel: &Sel, worlds: &[W]) -> Source<u32> {
    let mk = |n: &str| { let mut j = 0; for w in worlds { j = new_source(w, n); } puppet_source_sel(sel, j) };
    let base = op.trim_end_matches(|c| SFX.contains(&c));
    match base {
        "map" => callbag::map(|x: u32| x + 100)(mk("a")),
        "filter" => callbag::filter(|x: &u32| x % 2 == 0)(mk("a")),
        "scan" => callbag::scan(|acc: u32, x: u32| acc + x, 0u32)(mk("a")),
        "take0" => callbag::take(0)(mk("a")),
        "take1" => callbag::take(1)(mk("a")),
        "take2" => callbag::take(2)(mk("a")),
        "skip1" => callbag::skip(1)(mk("a")),
        "merge2" => callbag::merge!(mk("a"), mk("b")),
        "merge3" => callbag::merge!(mk("a"), mk("b"), mk("c")),
        "concat0" => callbag::concat(Vec::<Source<u32>>::new().into_boxed_slice()),
        "concat2" => callbag::concat!(mk("a"), mk("b")),
        "concat3" => callbag::concat!(mk("a"), mk("b"), mk("c")),
        "combine2" => callbag::map(|(x, y): (u32, u32)| x * 1000 + y)(callbag::combine!(mk("a"), mk("b"))),
        "from_iter" => callbag::from_iter([1u32, 2, 3]),
        "interval" => callbag::map(|x: usize| x as u32)(callbag::interval(std::time::Duration::from_millis(1), interval::PuppetNursery { sel: sel.clone() })),
        "flatten" => {
            // the outer is a puppet whose data are fresh puppet inner sources
            let outer = mk("outer");
            let sel = sel.clone();
            callbag::flatten(callbag::map(move |v: u32| { let w2 = sel(); let j = new_source(&w2, &format!("inner{}", v % 500)); puppet_source(&w2, j) })(outer))
        }
        _ => panic!("unknown scenario {}", op),
    }
}
fn new_world(op: &str, ts: &Arc<Mutex<TapeSt>>, val_base: u32) -> W {
    Arc::new(Mutex::new(World { ts: ts.clone(), val_base, late: sfx(op).contains('L'), cross: sfx(op).contains('X'), pull_mode: sfx(op).contains('P'), op_prop: if op.starts_with("merge") { Some("C08") } else if op.starts_with("combine") { Some("C10") } else if op.starts_with("concat") { Some("C09") } else if op.starts_with("flatten") { Some("C11") } else { None }, ..Default::default() }))
}
struct Outcome { violations: Vec<(String, String)>, log: Vec<String>, exhausted: Option<usize>, panicked: Option<String> }
fn panic_text(e: Box<dyn std::any::Any + Send>) -> String {
    e.downcast_ref::<&str>().map(|s| s.to_string()).or_else(|| e.downcast_ref::<String>().cloned()).unwrap_or_else(|| "panic".into())
}
fn run(op: &str, tape: &[u8]) -> Outcome {
    if sfx(op).contains('O') { return run_overlap(op, tape); }
    run_single(op, tape, 0)
}
fn run_single(op: &str, tape: &[u8], val_base: u32) -> Outcome {
    let ts = Arc::new(Mutex::new(TapeSt { tape: tape.to_vec(), ..Default::default() }));
    let w: W = new_world(op, &ts, val_base);
    let r = catch_unwind(AssertUnwindSafe(|| {
        if op.starts_with("share") {
            let j = new_source(&w, "a");
            let shared = Arc::new(callbag::share(puppet_source(&w, j)));
            let max_sinks = if op.starts_with("share2") { 2 } else { 3 };
            let names = ["sinkA", "sinkB", "sinkC"];
            let attach: Arc<dyn Fn(&W) + Send + Sync> = Arc::new(move |w: &W| {
                let k = w.lock().unwrap().sinks.len();
                if k >= max_sinks { return; }
                let s = new_sink(w, names[k]);
                log(w, format!("{} subscribes", names[k]));
                shared(Message::Handshake(puppet_sink(w, s)));
            });
            if sfx(op).contains('A') {
                // (a weak reference: the hook lives in the world it acts on)
                let (wk, attach) = (Arc::downgrade(&w), attach.clone());
                // (while finding F13 is listed, its class of histories -- a sink attaches while the end of the upstream is being
                // handed round -- is left out of the exploration: everything after it would be a consequence of F13)
                let skip_f13 = STOP_ON.lock().unwrap().iter().any(|x| x.contains(&norm("attached while the end of the upstream was being handed round")));
                w.lock().unwrap().attach_hook = Some(Arc::new(move || { if let Some(w) = wk.upgrade() { if skip_f13 && w.lock().unwrap().ending { return; } attach(&w) } }));
            }
            attach(&w);
            if op.starts_with("share2") { attach(&w); }
            share_checks(&w);
            for _ in 0..64 {
                let n = w.lock().unwrap().sinks.len();
                let c = choose(&w, 3 + n);
                if c == 0 { break; }
                if c == 1 { let st = w.lock().unwrap().srcs[0].st; if st == SrcSt::Pending { src_greet(&w, 0); } else { src_event(&w, 0, false); } }
                else if c == 2 { if n < max_sinks { attach(&w); } }
                else { sink_action(&w, c - 3, false); }
                share_checks(&w);
            }
            w.lock().unwrap().attach_hook = None;
            return;
        }
        if op.starts_with("for_each") {
            // the crate's sink over a puppet source: f records its arguments; for_each asks for the next item when it
            // is greeted and after every item, and never talks to a source that is over
            let j = new_source(&w, "a");
            let seen: Arc<Mutex<Vec<u32>>> = Arc::new(Mutex::new(vec![]));
            log(&w, "for_each subscribes".into());
            callbag::for_each({ let (seen, w) = (seen.clone(), w.clone()); move |x: u32| { log(&w, format!("f({})", x)); seen.lock().unwrap().push(x); } })(puppet_source(&w, j));
            let check = |w: &W| {
                let g = w.lock().unwrap();
                let sent: Vec<u32> = g.emitted.iter().map(|e| e.1).collect();
                let mut v = vec![];
                if *seen.lock().unwrap() != sent { v.push(("C06", format!("f was called on {:?}, the source sent {:?}", seen.lock().unwrap(), sent))); }
                if g.srcs[0].st == SrcSt::Live && g.srcs[0].pulls != g.srcs[0].emitted + 1 { v.push(("C06", format!("for_each has sent {} Pulls for a greeting and {} items", g.srcs[0].pulls, g.srcs[0].emitted))); v.push(("C04", format!("for_each has sent {} Pulls for a greeting and {} items", g.srcs[0].pulls, g.srcs[0].emitted))); }
                drop(g);
                for (p, what) in v { violate(w, p, what); }
            };
            check(&w);
            for _ in 0..64 {
                let c = choose(&w, 2);
                if c == 0 { break; }
                let st = w.lock().unwrap().srcs[0].st;
                if st == SrcSt::Pending { src_greet(&w, 0); } else { src_event(&w, 0, false); }
                check(&w);
            }
            return;
        }
        let sel: Sel = { let w = w.clone(); Arc::new(move || w.clone()) };
        let source = build(op, &sel, &[w.clone()]);
        let mut resubscribed = false;
        let k = new_sink(&w, "sink");
        log(&w, "sink subscribes".into());
        source(Message::Handshake(puppet_sink(&w, k)));
        quiescent_checks(&w, true);
        functional_checks(&w, op);
        for _ in 0..64 {
            let n = n_actors(&w);
            let c = choose(&w, 2 + n);
            if c == 0 { break; }
            top_level_action(&w, c);
            quiescent_checks(&w, true);
            functional_checks(&w, op);
            // scenario suffix R (C13): once the first subscription is over on both sides, the SAME source value is
            // subscribed again; the second subscription must behave as if it were the only one
            if sfx(op).contains('R') && !resubscribed {
                let over = { let g = w.lock().unwrap(); g.sinks[k].st != SinkSt::Live && g.sinks[k].st != SinkSt::NotGreeted && g.srcs.iter().all(|x| x.st != SrcSt::Live && x.st != SrcSt::Pending) };
                if over {
                    resubscribed = true;
                    {
                        let mut g = w.lock().unwrap();
                        for x in g.srcs.iter_mut() { x.st = SrcSt::Idle; x.sink = None; x.err = None; x.emitted = 0; x.pulls = 0; x.answers = 0; x.greet_pulls = None; }
                        let s = &mut g.sinks[k]; s.st = SinkSt::NotGreeted; s.tb = None; s.data.clear(); s.err = None; s.pulls = 0; s.attach_at = 0;
                        g.emitted.clear(); g.sub_order.clear(); g.resub = true;
                    }
                    log(&w, "---- the first subscription is over: sink subscribes to the same source value again ----".into());
                    source(Message::Handshake(puppet_sink(&w, k)));
                    quiescent_checks(&w, true);
                    functional_checks(&w, op);
                }
            }
        }
    }));
    let mut g = w.lock().unwrap_or_else(|e| e.into_inner());
    let panicked = r.err().map(panic_text);
    if let Some(p) = &panicked { g.violations.push(("C17".into(), format!("panic: {}", p))); }
    let exhausted = ts.lock().unwrap_or_else(|e| e.into_inner()).exhausted_opts;
    let out = Outcome { violations: g.violations.clone(), log: g.log.clone(), exhausted, panicked };
    // (the peers hold each other through the world: break the cycles so that a run frees its memory)
    g.srcs.clear(); g.sinks.clear(); g.tasks.clear(); g.attach_hook = None; g.nested_sub = None;
    out
}
/// top-level decision c >= 1 of one world: 1 = the sink acts, 2 + j = source j acts (greets, if its greeting is due)
fn n_actors(w: &W) -> usize { let g = w.lock().unwrap(); g.srcs.len() + g.tasks.len() }
fn top_level_action(w: &W, c: usize) {
    if c == 1 { sink_action(w, 0, false); }
    else if c - 2 >= w.lock().unwrap().srcs.len() { let t = c - 2 - w.lock().unwrap().srcs.len(); interval::tick(w, t); }
    else {
        let j = c - 2;
        let st = w.lock().unwrap().srcs[j].st;
        if st == SrcSt::Pending { src_greet(w, j); } else { src_event(w, j, false); }
    }
}
/// scenario suffix O (C13): TWO subscriptions of the same source value overlap, each played by the puppets of its
/// own world (own peers, own monitors).  The second one starts at a tape-chosen moment, possibly from inside a
/// handler of the first.  Besides the monitors of each world, the oracle is the property statement itself:
/// the decisions taken by the peers of each world are recorded and replayed on a fresh value of the same
/// operator subscribed ONCE; what the peers of that world saw must be the same, line for line.
fn run_overlap(op_full: &str, tape: &[u8]) -> Outcome {
    let base = op_full.trim_end_matches(|c| SFX.contains(&c));
    let op: String = format!("{}{}", base, sfx(op_full).replace('O', "").replace('Q', ""));
    let quiet_setup = sfx(op_full).contains('Q');
    let ts = Arc::new(Mutex::new(TapeSt { tape: tape.to_vec(), ..Default::default() }));
    let ws: Vec<W> = (0..2).map(|i| new_world(&op, &ts, 500 * i as u32)).collect();
    let cur = Arc::new(std::sync::atomic::AtomicUsize::new(0));
    use std::sync::atomic::Ordering::SeqCst;
    let sel: Sel = { let (ws, cur) = (ws.clone(), cur.clone()); Arc::new(move || ws[cur.load(SeqCst)].clone()) };
    let r = catch_unwind(AssertUnwindSafe(|| {
        let source = Arc::new(build(&op, &sel, &ws));
        let subscribe: Arc<dyn Fn(usize) + Send + Sync> = { let (ws, cur) = (ws.clone(), cur.clone()); Arc::new(move |i: usize| {
            if !ws[i].lock().unwrap().sinks.is_empty() { return; }
            let prev = cur.swap(i, SeqCst);
            let k = new_sink(&ws[i], "sink");
            log(&ws[i], "sink subscribes".into());
            source(Message::Handshake(puppet_sink(&ws[i], k)));
            cur.store(prev, SeqCst);
        }) };
        { let s = subscribe.clone(); ws[0].lock().unwrap().nested_sub = Some(Arc::new(move || s(1))); }
        let checks = |ws: &Vec<W>| { for w in ws { if !w.lock().unwrap().sinks.is_empty() { quiescent_checks(w, true); functional_checks(w, &op); } } };
        // (suffix Q: both subscriptions are started up front, everybody greeting at once and staying passive)
        ts.lock().unwrap().quiet = quiet_setup;
        subscribe(0);
        if quiet_setup { subscribe(1); }
        ts.lock().unwrap().quiet = false;
        checks(&ws);
        for _ in 0..64 {
            let n0 = n_actors(&ws[0]);
            let (sub1, n1) = { let g = ws[1].lock().unwrap(); (!g.sinks.is_empty(), g.srcs.len() + g.tasks.len()) };
            let opts1 = if sub1 { 1 + n1 } else { 1 };
            let c = choose_meta(&ts, 1 + (1 + n0) + opts1);
            if c == 0 { break; }
            let (i, lc) = if c <= 1 + n0 { (0, c) } else { (1, c - (1 + n0)) };
            if i == 1 && !sub1 { subscribe(1); }
            else {
                cur.store(i, SeqCst);
                ws[i].lock().unwrap().rec.push(lc as u8);
                top_level_action(&ws[i], lc);
            }
            checks(&ws);
        }
    }));
    for w in &ws { let mut g = w.lock().unwrap_or_else(|e| e.into_inner()); g.nested_sub = None; }
    let panicked = r.err().map(panic_text);
    let mut violations = vec![]; let mut lg = vec![];
    for (i, w) in ws.iter().enumerate() {
        let g = w.lock().unwrap_or_else(|e| e.into_inner());
        if g.sinks.is_empty() { continue; }
        for (p, what) in g.violations.iter() { violations.push((p.clone(), format!("subscription {}: {}", i + 1, what))); }
        lg.push(format!("==== what the peers of subscription {} saw (overlapping with the other one)", i + 1));
        lg.extend(g.log.iter().cloned());
        if panicked.is_none() {
            let solo = run_single(&op, &g.rec, g.val_base);
            // (what the peers saw and did; the lines of the monitors are not part of it)
            let seen = |l: &Vec<String>| l.iter().filter(|x| !x.starts_with("!!")).cloned().collect::<Vec<_>>();
            let (mine, alone) = (seen(&g.log), seen(&solo.log));
            if mine != alone {
                let d = (0..mine.len().max(alone.len())).find(|&x| mine.get(x) != alone.get(x)).unwrap();
                violations.push(("C13".into(), format!("subscription {} of the same source value, overlapping with another one, saw {:?} where the same peers making the same decisions see {:?} when it is the only subscription (line {})", i + 1, mine.get(d).map(|s| s.as_str()).unwrap_or("<nothing more>"), alone.get(d).map(|s| s.as_str()).unwrap_or("<nothing more>"), d + 1)));
                lg.push(format!("==== what the same peers see, same decisions, when subscription {} is the only one", i + 1));
                lg.extend(solo.log.iter().cloned());
            }
        }
    }
    if let Some(p) = &panicked { violations.push(("C17".into(), format!("panic: {}", p))); }
    for w in &ws { let mut g = w.lock().unwrap_or_else(|e| e.into_inner()); g.srcs.clear(); g.sinks.clear(); g.tasks.clear(); }
    let exhausted = ts.lock().unwrap_or_else(|e| e.into_inner()).exhausted_opts;
    Outcome { violations, log: lg, exhausted, panicked }
}
/// the profile letters at the end of a scenario name (L late greeting, X cross-member activity, P pull mode, R re-subscription)
fn sfx(op: &str) -> &str {
    let base = op.trim_end_matches(|c| SFX.contains(&c));
    &op[base.len()..]
}
fn norm(s: &str) -> String {
    // compare violation texts up to peer names and numbers
    let cleaned: String = s.chars().map(|c| if c.is_ascii_digit() { '#' } else if c.is_alphanumeric() || c == '#' { c } else { ' ' }).collect();
    cleaned.split_whitespace().map(|w| {
        let is_name = matches!(w, "a" | "b" | "c" | "outer" | "sink" | "sinkA" | "sinkB" | "sinkC") || w.starts_with("inner");
        if is_name { "_" } else { w }
    }).collect::<Vec<_>>().join(" ")
}
fn search(op: &str, want: Option<&str>, pat: Option<&str>, excl: &[String], max_len: usize, budget: &mut u64, prefix: &mut Vec<u8>, best: &mut Option<(Vec<u8>, Outcome)>) {
    if *budget == 0 || best.is_some() { return; }
    *budget -= 1;
    let o = run(op, prefix);
    if o.violations.iter().any(|(p, wh)| want.map(|x| x == p).unwrap_or(true) && pat.map(|x| wh.contains(x)).unwrap_or(true) && !excl.iter().any(|x| norm(wh).contains(&norm(x)))) { *best = Some((prefix.clone(), o)); return; }
    if let Some(n) = o.exhausted {
        if prefix.len() < max_len {
            for c in 0..n as u8 {
                prefix.push(c);
                search(op, want, pat, excl, max_len, budget, prefix, best);
                prefix.pop();
                if best.is_some() { return; }
            }
        }
    }
}
/// one pass over every tape up to `max_len`: the first failing tape of each property (after exclusions)
fn collect(op: &str, excl: &[String], max_len: usize, budget: &mut u64, prefix: &mut Vec<u8>, hits: &mut std::collections::BTreeMap<String, (Vec<u8>, Outcome)>) {
    if *budget == 0 { return; }
    *budget -= 1;
    let o = run(op, prefix);
    for (p, wh) in o.violations.iter() {
        if excl.iter().any(|x| norm(wh).contains(&norm(x))) { continue; }
        if !hits.contains_key(p) {
            hits.insert(p.clone(), (prefix.clone(), Outcome { violations: o.violations.clone(), log: o.log.clone(), exhausted: o.exhausted, panicked: o.panicked.clone() }));
        }
    }
    if let Some(n) = o.exhausted {
        if prefix.len() < max_len {
            for c in 0..n as u8 {
                prefix.push(c);
                collect(op, excl, max_len, budget, prefix, hits);
                prefix.pop();
            }
        }
    }
}
/// C20: a subscriber that enables every span and event and formats every field, so that every argument expression of
/// every trace line is evaluated
#[cfg(feature = "tracing")]
mod all_on {
    use std::sync::atomic::{AtomicU64, Ordering};
    use tracing::{field::{Field, Visit}, span, Event, Metadata, Subscriber};
    pub struct AllOn(pub AtomicU64);
    struct V;
    impl Visit for V { fn record_debug(&mut self, _: &Field, v: &dyn std::fmt::Debug) { let _ = format!("{:?}", v); } }
    impl Subscriber for AllOn {
        fn enabled(&self, _: &Metadata<'_>) -> bool { true }
        fn new_span(&self, a: &span::Attributes<'_>) -> span::Id { a.record(&mut V); span::Id::from_u64(self.0.fetch_add(1, Ordering::SeqCst) + 1) }
        fn record(&self, _: &span::Id, r: &span::Record<'_>) { r.record(&mut V); }
        fn record_follows_from(&self, _: &span::Id, _: &span::Id) {}
        fn event(&self, e: &Event<'_>) { e.record(&mut V); }
        fn enter(&self, _: &span::Id) {}
        fn exit(&self, _: &span::Id) {}
    }
    pub fn install() { let _ = tracing::subscriber::set_global_default(AllOn(AtomicU64::new(0))); }
}
/// `replay sig`: one line per tape of the enumeration: the tape and a hash of what the peers saw (C20 compares the
/// output of the plain build with the output of the build with the `tracing` feature)
fn sig(op: &str, max_len: usize, budget: &mut u64, prefix: &mut Vec<u8>, out: &mut dyn std::io::Write) {
    if *budget == 0 { return; }
    *budget -= 1;
    let o = run(op, prefix);
    use std::hash::{Hash, Hasher};
    let mut h = std::collections::hash_map::DefaultHasher::new();
    for l in o.log.iter().filter(|l| !l.starts_with("!!")) { l.hash(&mut h); }
    o.panicked.hash(&mut h);
    let _ = writeln!(out, "{}\t{:016x}", serde_json::to_string(prefix).unwrap(), h.finish());
    if let Some(n) = o.exhausted {
        if prefix.len() < max_len {
            for c in 0..n as u8 { prefix.push(c); sig(op, max_len, budget, prefix, out); prefix.pop(); }
        }
    }
}
fn main() {
    std::panic::set_hook(Box::new(|_| {}));
    #[cfg(feature = "tracing")]
    all_on::install();
    let a: Vec<String> = std::env::args().collect();
    let out = |tape: &[u8], o: &Outcome, runs: u64| {
        println!("{}", serde_json::json!({ "tape": tape, "violations": o.violations.iter().map(|(p, w)| serde_json::json!({"property": p, "what": w})).collect::<Vec<_>>(), "history": o.log, "panicked": o.panicked, "runs": runs }));
    };
    match a.get(1).map(|s| s.as_str()) {
        Some("run") => {
            let tape: Vec<u8> = serde_json::from_str(&a[3]).expect("tape must be a JSON array of bytes");
            let o = run(&a[2], &tape);
            out(&tape, &o, 1);
            std::process::exit(if o.violations.is_empty() { 0 } else { 1 });
        }
        Some("search") => {
            let op = &a[2];
            let mut want: Option<String> = None; let mut pat: Option<String> = None; let mut excl: Vec<String> = vec![]; let mut len = 9usize; let mut budget: u64 = 3_000_000;
            let mut i = 3;
            while i + 1 < a.len() { match a[i].as_str() { "--property" => want = Some(a[i + 1].clone()), "--match" => pat = Some(a[i + 1].clone()), "--exclude" => excl.push(a[i + 1].clone()), "--len" => len = a[i + 1].parse().unwrap(), "--budget" => budget = a[i + 1].parse().unwrap(), _ => {} } i += 2; }
            *STOP_ON.lock().unwrap() = excl.iter().map(|x| norm(x)).collect();
            let total = budget;
            let mut best = None;
            // iterative deepening: shortest failing tape first
            let mut last_level: u64 = 0;
            for l in 1..=len { let before = budget; search(op, want.as_deref(), pat.as_deref(), &excl, l, &mut budget, &mut vec![], &mut best); last_level = before - budget; if best.is_some() || budget == 0 { break; } }
            match best {
                Some((t, o)) => { out(&t, &o, total - budget); std::process::exit(1); }
                None => { println!("{}", serde_json::json!({"tape": null, "violations": [], "runs": total - budget, "runs_deepest_level": last_level, "budget_exhausted": budget == 0, "max_len": len})); std::process::exit(0); }
            }
        }
        Some("collect") => {
            // replay collect <scenario> [--len N] [--budget N] [--exclude text]..
            let op = &a[2];
            let mut excl: Vec<String> = vec![]; let mut len = 10usize; let mut budget: u64 = 3_000_000; let mut start: Vec<u8> = vec![];
            let mut i = 3;
            while i + 1 < a.len() { match a[i].as_str() { "--exclude" => excl.push(a[i + 1].clone()), "--len" => len = a[i + 1].parse().unwrap(), "--budget" => budget = a[i + 1].parse().unwrap(), "--prefix" => start = serde_json::from_str(&a[i + 1]).expect("prefix must be a JSON array of bytes"), _ => {} } i += 2; }
            *STOP_ON.lock().unwrap() = excl.iter().map(|x| norm(x)).collect();
            let total = budget;
            let mut hits = std::collections::BTreeMap::new();
            // (with --prefix every tape explored starts with that setup; --len counts the whole tape)
            collect(op, &excl, len, &mut budget, &mut start, &mut hits);
            let h: serde_json::Map<String, serde_json::Value> = hits.iter().map(|(p, (t, o))| (p.clone(), serde_json::json!({"tape": t, "violations": o.violations.iter().map(|(p, w)| serde_json::json!({"property": p, "what": w})).collect::<Vec<_>>(), "history": o.log}))).collect();
            println!("{}", serde_json::json!({"hits": h, "runs": total - budget, "budget_exhausted": budget == 0, "max_len": len}));
            std::process::exit(if hits.is_empty() { 0 } else { 1 });
        }
        Some("sig") => {
            // replay sig <scenario> [--len N] [--budget N]
            let op = &a[2];
            let mut len = 9usize; let mut budget: u64 = 300_000;
            let mut i = 3;
            while i + 1 < a.len() { match a[i].as_str() { "--len" => len = a[i + 1].parse().unwrap(), "--budget" => budget = a[i + 1].parse().unwrap(), _ => {} } i += 2; }
            let stdout = std::io::stdout();
            let mut w = std::io::BufWriter::new(stdout.lock());
            sig(op, len, &mut budget, &mut vec![], &mut w);
            std::process::exit(0);
        }
        Some("threads") => {
            // replay threads block combine2 | replay threads stress <take1|take2|merge2|merge3|combine2> <runs>
            let rep = match a.get(2).map(|s| s.as_str()) {
                Some("block") => threads::combine_block(),
                Some("stress") => threads::stress(&a[3], a.get(4).and_then(|s| s.parse().ok()).unwrap_or(20000)),
                _ => { eprintln!("usage: replay threads block combine2 | replay threads stress <scenario> <runs>"); std::process::exit(2); }
            };
            println!("{}", serde_json::json!({ "tape": null, "violations": rep.violations.iter().map(|(p, w)| serde_json::json!({"property": p, "what": w})).collect::<Vec<_>>(), "history": rep.log, "panicked": null, "runs": rep.runs }));
            std::process::exit(if rep.violations.is_empty() { 0 } else { 1 });
        }
        _ => { eprintln!("usage: replay run <scenario> <tape-json> | replay search <scenario> [--property Cxx] [--len N] [--budget N]"); std::process::exit(2); }
    }
}
